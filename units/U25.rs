//@serves C01 C04 C10 C12
//@tier A
//@include prelude/head.rs
verus! {
//@include prelude/bytes.rs
//@include prelude/flags.rs
//@include prelude/fd.rs
//@include prelude/path.rs
//@include prelude/errbase.rs
//@include prelude/pathspec.rs
use std::rc::Rc;
use std::collections::VecDeque;
//@include prelude/vecdeque_is_empty.rs
//@include prelude/symlink_stack_spec.rs
//@broadcast-here
pub mod fmt { pub use core::fmt::Debug; }
//@item src/resolvers/opath/symlink_stack.rs :: enum SymlinkStackError | sub.SymlinkStackError
//@item src/resolvers/opath/symlink_stack.rs :: struct SymlinkStackEntry | sub.SymlinkStackEntry
//@item src/resolvers/opath/symlink_stack.rs :: struct SymlinkStack | sub.SymlinkStack
impl<F: fmt::Debug> SymlinkStackEntry<F> {
    pub open spec fn v(&self) -> EntryV<F> { EntryV { dir: self.state.0, rem: self.state.1@, parts: cv(self.unwalked_link_parts@) } }
}
impl<F: fmt::Debug> SymlinkStack<F> {
    pub open spec fn view(&self) -> Seq<EntryV<F>> { self.0@.map_values(|e: SymlinkStackEntry<F>| e.v()) }
//@prove ss.do_push
//@prove ss.do_pop
//@prove ss.pop_part
//@prove ss.swap_link
//@prove ss.pop_top_symlink
//@prove ss.new
}
} // verus!
fn main() {}
