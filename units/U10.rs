//@serves C03 C05 C14 C13 C02 C10 C11 C12 C01 C04
//@tier A
//@include prelude/head.rs
verus! {
//@include prelude/bytes.rs
//@include prelude/flags.rs
//@include prelude/fd.rs
//@include prelude/path.rs
//@include prelude/error.rs
//@include prelude/pathspec.rs
//@include prelude/root_types.rs
//@include prelude/shims.rs
//@broadcast-here
pub type RawMode = u32;
use rustix_fs::Dev;
pub mod syscalls {
    use super::*;
//@include prelude/syserr_opaque.rs
//@use syscalls.openat c14
//@use syscalls.readlinkat
//@use syscalls.mkdirat c14
//@use syscalls.mknodat c14
//@use syscalls.unlinkat c14
//@use syscalls.linkat c14
//@use syscalls.symlinkat c14
//@use syscalls.renameat2 c14
    #[verifier::external_body]
    pub fn at_fdcwd() -> (r: BorrowedFd<'static>) ensures raw_of(r.id@) == libc::AT_FDCWD as int, r.id@ == cwd_id() { unimplemented!() }
    /// R18: the one bootstrap use of `syscalls::openat(AT_FDCWD, <caller's path>, ..)` in root.rs (Root::open):
    /// the caller names the directory that IS the root; no root exists yet, so there is nothing to stay inside
    #[verifier::external_body]
    pub fn openat_bootstrap_root<P: AsRefPath>(dirfd: BorrowedFd<'_>, path: P, flags: OpenFlags, mode: u32) -> (r: Result<OwnedFd, Error>)
        requires
            raw_of(dirfd.id@) == libc::AT_FDCWD as int,
            has(flags.bits, libc::O_PATH | libc::O_DIRECTORY),                  // [C05.Root_open.opath_directory]
        ensures
            r matches Ok(fd) ==> opened_from(fd.id(), dirfd.id@, path.pview()),
            r matches Ok(fd) ==> has(kflags(fd.id()), flags.bits | libc::O_NOFOLLOW | libc::O_CLOEXEC | libc::O_NOCTTY),
    { unimplemented!() }
//@use-missing syscalls.openat syscalls.openat_follow syscalls.readlinkat syscalls.mkdirat syscalls.mknodat syscalls.unlinkat syscalls.linkat syscalls.symlinkat syscalls.renameat syscalls.renameat2 syscalls.openat2
}
use syscalls::Error as SyscallError;
//@item src/error.rs :: enum ErrorKind | sub.ErrorKind

pub mod utils {
    use super::*;
//@use utils.path_split
//@use utils.dir.remove_all
}

//@item src/handle.rs :: struct Handle | sub.Handle
//@include prelude/handle.rs
//@item src/resolvers.rs :: enum ResolverBackend | sub.ResolverBackend
//@item src/resolvers.rs :: struct Resolver | sub.Resolver
impl Resolver {
//@use resolvers.Resolver.resolve
//@use resolvers.Resolver.open
}
//@include prelude/resolver_cfg.rs

//@item src/root.rs :: enum InodeType | sub.InodeType
//@item src/root.rs :: enum RemoveInodeType | sub.RemoveInodeType
//@item src/root.rs :: struct RootRef | sub.RootRef
impl AsFd for RootRef<'_> {
    open spec fn fd_id(&self) -> int { self.inner.id@ }
    fn as_fd(&self) -> (r: BorrowedFd<'_>) { self.inner }
}
pub open spec fn inode_fmt(t: InodeType) -> u32 {
    match t {
        InodeType::File(_) => libc::S_IFREG,
        InodeType::Fifo(_) => libc::S_IFIFO,
        InodeType::CharacterDevice(_, _) => libc::S_IFCHR,
        InodeType::BlockDevice(_, _) => libc::S_IFBLK,
        _ => requested_fmt(),
    }
}
pub open spec fn inode_mode(t: InodeType) -> u32 {
    match t {
        InodeType::File(p) => p.mode_spec(),
        InodeType::Directory(p) => p.mode_spec(),
        InodeType::Fifo(p) => p.mode_spec(),
        InodeType::CharacterDevice(p, _) => p.mode_spec(),
        InodeType::BlockDevice(p, _) => p.mode_spec(),
        _ => requested_mode(),
    }
}
pub open spec fn inode_dev(t: InodeType) -> u64 {
    match t {
        InodeType::CharacterDevice(_, d) => d,
        InodeType::BlockDevice(_, d) => d,
        InodeType::File(_) => 0,
        InodeType::Fifo(_) => 0,
        _ => requested_dev(),
    }
}
pub open spec fn inode_target(t: InodeType) -> Seq<u8> {
    match t {
        InodeType::Symlink(p) => p@,
        InodeType::Hardlink(p) => p@,
        _ => requested_path(1),
    }
}

impl RootRef<'_> {
//@prove root.RootRef.from_fd
//@prove root.RootRef.try_clone
//@prove root.RootRef.resolver_flags
//@prove root.RootRef.set_resolver_flags
//@prove root.RootRef.with_resolver_flags
//@prove root.RootRef.open_subpath
//@prove root.RootRef.resolve c14
//@prove root.RootRef.resolve_nofollow c14
//@prove root.RootRef.resolve_parent c14
//@prove root.RootRef.readlink c14
//@prove root.RootRef.create c14
//@prove root.RootRef.create_file c14
//@prove root.RootRef.remove_inode c14
//@prove root.RootRef.remove_dir c14
//@prove root.RootRef.remove_file c14
//@prove root.RootRef.remove_all c14
//@prove root.RootRef.rename c14
//@use root.RootRef.mkdir_all c12
}
//@item src/root.rs :: struct Root | sub.Root
impl AsFd for Root {
    open spec fn fd_id(&self) -> int { self.inner.id() }
    fn as_fd(&self) -> (r: BorrowedFd<'_>) { self.inner.as_fd() }
}
impl Root {
//@prove root.Root.from_fd
//@prove root.Root.open
//@prove root.Root.as_ref
//@prove root.Root.try_clone
//@prove root.Root.resolver_flags
//@prove root.Root.set_resolver_flags
//@prove root.Root.with_resolver_flags
//@prove root.Root.resolve c14
//@prove root.Root.resolve_nofollow c14
//@prove root.Root.open_subpath c14
//@prove root.Root.readlink c14
//@prove root.Root.create c14
//@prove root.Root.create_file c14
//@prove root.Root.mkdir_all c12
//@prove root.Root.remove_dir c14
//@prove root.Root.remove_file c14
//@prove root.Root.remove_all c14
//@prove root.Root.rename c14
}
} // verus!
fn main() {}
