//@serves C04 C09 C10 C11
//@tier A
//@include prelude/head.rs
verus! {
//@include prelude/bytes.rs
//@include prelude/flags.rs
//@include prelude/fd.rs
//@include prelude/path.rs
//@include prelude/error.rs
//@include prelude/shims.rs
//@broadcast-here
pub mod syscalls {
    use super::*;
//@include prelude/syserr_opaque.rs
}
use syscalls::Error as SyscallError;
//@item src/error.rs :: enum ErrorKind | sub.ErrorKind
#[verifier::external_body]
pub struct ProcfsHandle { _p: () }
#[verifier::external_body]
pub fn global_procfs_handle() -> (r: &'static ProcfsHandle) { unimplemented!() }
pub trait FdExt: AsFd {
    /// utils/fd.rs FdExt::reopen (proved in U15) + A6: a followed open of thread-self/fd/<n> in a verified
    /// procfs directory opens that very open file description's inode
    #[verifier::external_body]
    fn reopen(&self, procfs: &ProcfsHandle, flags: OpenFlags) -> (r: Result<OwnedFd, Error>)
        ensures
            r matches Ok(fd) ==> reopened_from(fd.id(), self.fd_id()),
            r matches Ok(fd) ==> cloexec(fd.id()),                                // utils.FdExt.reopen, proved in U15
            r matches Ok(fd) ==> (lineage(self.fd_id()) ==> lineage(fd.id())) && (witnessed(self.fd_id()) ==> witnessed(fd.id())),
            r matches Ok(fd) ==> requested_flags_of(fd.id()) == flags.bits & !libc::O_NOFOLLOW,
    { unimplemented!() }
}
impl<T: AsFd> FdExt for T {}
//@item src/handle.rs :: struct Handle | sub.Handle
//@include prelude/handle.rs
//@item src/handle.rs :: struct HandleRef | sub.HandleRef
impl AsFd for HandleRef<'_> {
    open spec fn fd_id(&self) -> int { self.inner.id@ }
    fn as_fd(&self) -> (r: BorrowedFd<'_>) { self.inner }
}
impl HandleRef<'_> {
//@prove handle.HandleRef.from_fd
//@prove handle.HandleRef.try_clone
//@prove handle.HandleRef.reopen
}
impl Handle {
//@prove handle.Handle.from_fd
//@prove handle.Handle.as_ref
//@prove handle.Handle.try_clone
//@prove handle.Handle.reopen
}
impl OpenFlags {
//@prove flags.OpenFlags.access_mode
//@prove flags.OpenFlags.wants_read
//@prove flags.OpenFlags.wants_write
}
} // verus!
fn main() {}
