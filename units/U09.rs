//@serves C01 C02 C04 C10 C11 C12 C03 C14
//@tier A
//@include prelude/head.rs
verus! {
//@include prelude/bytes.rs
//@include prelude/flags.rs
//@include prelude/fd.rs
//@include prelude/path.rs
//@include prelude/error.rs
//@include prelude/pathspec.rs
//@include prelude/shims.rs
//@broadcast-here
use std::rc::Rc;
pub uninterp spec fn rc_unique<T>(rc: Rc<T>) -> bool;
/// R12: `Rc::try_unwrap(rc)` -- Ok exactly when this is the only reference (std semantics, A7)
#[verifier::external_body]
pub fn rc_try_unwrap<T>(rc: Rc<T>) -> (r: Result<T, Rc<T>>)
    ensures rc_unique(rc) ==> r is Ok, r matches Ok(v) ==> v == *rc
{ Rc::try_unwrap(rc) }
pub mod syscalls {
    use super::*;
//@include prelude/syserr_opaque.rs
//@use-missing syscalls.openat syscalls.openat_follow syscalls.readlinkat syscalls.mkdirat syscalls.mknodat syscalls.unlinkat syscalls.linkat syscalls.symlinkat syscalls.renameat syscalls.renameat2 syscalls.openat2
}
use syscalls::Error as SyscallError;
//@item src/error.rs :: enum ErrorKind | sub.ErrorKind
impl Error {
//@use error.Error.kind
}
#[verifier::external_body]
pub struct Metadata { _p: () }
impl Metadata {
    pub uninterp spec fn symlink(&self) -> bool;
    #[verifier::external_body]
    pub fn is_symlink(&self) -> (r: bool) ensures r == self.symlink() { unimplemented!() }
}
pub trait FdExt: AsFd {
    /// utils/fd.rs FdExt::metadata (proved in U15): fstat of the descriptor itself
    #[verifier::external_body]
    fn metadata(&self) -> (r: Result<Metadata, Error>)
        ensures r matches Ok(m) ==> m.symlink() == is_symlink_object(self.fd_id())
    { unimplemented!() }
}
impl<T: AsFd> FdExt for T {}
//@item src/handle.rs :: struct Handle | sub.Handle
//@include prelude/handle.rs
impl Handle {
//@use handle.Handle.from_fd
//@use handle.Handle.reopen
}
//@item src/resolvers.rs :: enum PartialLookup | sub.PartialLookup
pub open spec fn pl_handle(p: PartialLookup<Handle>) -> Handle {
    match p { PartialLookup::Complete(h) => h, PartialLookup::Partial { handle, .. } => handle }
}
impl PartialLookup<Handle> {
//@prove resolvers.PartialLookup.try_into_handle
//@prove resolvers.PartialLookup.from_rc
//@prove resolvers.PartialLookup.try_into_handle_rest
}
impl PartialLookup<Rc<OwnedFd>> {
//@prove resolvers.PartialLookup.try_into_handle_rc
}
//@item src/resolvers.rs :: enum ResolverBackend | sub.ResolverBackend
//@item src/resolvers.rs :: struct Resolver | sub.Resolver
//@include prelude/resolver_cfg.rs
pub mod openat2 {
    use super::*;
//@use openat2.open
//@use openat2.resolve
//@use openat2.resolve_partial
}
pub mod opath {
    use super::*;
//@use opath.resolve
//@use opath.resolve_partial
}
impl Resolver {
//@prove resolvers.Resolver.open
//@prove resolvers.Resolver.resolve
//@prove resolvers.Resolver.resolve_partial
}
} // verus!
fn main() {}
