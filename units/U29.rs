//@serves C16 C10
//@tier A
//@include prelude/head.rs
verus! {
//@broadcast-here
/// src/error.rs `trait ErrorExt`: the declaration of `with_wrap` *is* its contract (what every implementation must
/// establish: U16 proves it for `ErrorImpl` and `Error`, this unit for `Result<T, E>`); the default method `wrap` keeps
/// its repository text.  `wrapped_of` is the abstract "same error, more context" relation (kind equality in prelude/error.rs).
pub trait ErrorExt: Sized {
    spec fn wrapped_of(self, inner: Self) -> bool;
//@prove error.ErrorExt.wrap
    fn with_wrap<F>(self, context_fn: F) -> (r: Self)
    where
        F: FnOnce() -> String,
        requires context_fn.requires(()),
        ensures r.wrapped_of(self);
}
pub open spec fn res_wrapped_of<T, E: ErrorExt>(s: Result<T, E>, inner: Result<T, E>) -> bool {
    match (s, inner) {
        (Ok(a), Ok(b)) => a == b,
        (Err(a), Err(b)) => a.wrapped_of(b),
        _ => false,
    }
}
impl<T, E: ErrorExt> ErrorExt for Result<T, E> {
    open spec fn wrapped_of(self, inner: Self) -> bool { res_wrapped_of(self, inner) }
//@prove error.Result.with_wrap
}
} // verus!
fn main() {}
