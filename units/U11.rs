//@serves C03 C05 C12 C10 C11
//@tier A
//@include prelude/head.rs
verus! {
//@include prelude/bytes.rs
//@include prelude/flags.rs
//@include prelude/fd.rs
//@include prelude/path.rs
//@include prelude/error.rs
//@include prelude/pathspec.rs
//@include prelude/root_types.rs
//@include prelude/veciter.rs
//@include prelude/shims.rs
//@broadcast-here
pub type RawMode = u32;
pub mod syscalls {
    use super::*;
//@include prelude/syserr_opaque.rs
//@use syscalls.openat c12
//@use syscalls.mkdirat c12
//@use-missing syscalls.openat syscalls.openat_follow syscalls.readlinkat syscalls.mkdirat syscalls.mknodat syscalls.unlinkat syscalls.linkat syscalls.symlinkat syscalls.renameat syscalls.renameat2 syscalls.openat2
}
use syscalls::Error as SyscallError;
//@item src/error.rs :: enum ErrorKind | sub.ErrorKind

//@item src/handle.rs :: struct Handle | sub.Handle
//@include prelude/handle.rs
impl Handle {
//@prove handle.Handle.from_fd
//@use handle.Handle.reopen
}
//@item src/resolvers.rs :: enum PartialLookup | sub.PartialLookup
pub open spec fn pl_handle(p: PartialLookup<Handle>) -> Handle {
    match p { PartialLookup::Complete(h) => h, PartialLookup::Partial { handle, .. } => handle }
}
impl PartialLookup<Handle> {
//@use resolvers.PartialLookup.try_into_handle_rest
}
//@item src/resolvers.rs :: enum ResolverBackend | sub.ResolverBackend
//@item src/resolvers.rs :: struct Resolver | sub.Resolver
//@include prelude/resolver_cfg.rs
impl Resolver {
//@use resolvers.Resolver.resolve_partial
}
//@item src/root.rs :: struct RootRef | sub.RootRef
impl AsFd for RootRef<'_> {
    open spec fn fd_id(&self) -> int { self.inner.id@ }
    fn as_fd(&self) -> (r: BorrowedFd<'_>) { self.inner }
}
impl RootRef<'_> {
//@prove root.RootRef.mkdir_all c12
}
} // verus!
fn main() {}
