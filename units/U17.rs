//@serves C10 C16
//@tier A
//@include prelude/head.rs
verus! {
//@include prelude/bytes.rs
//@include prelude/flags.rs
//@include prelude/fd.rs
//@include prelude/path.rs
//@include prelude/error.rs
//@include prelude/capi_env.rs
//@broadcast vstd::std_specs::hash::group_hash_axioms
//@broadcast-here

pub mod syscalls {
    use super::*;
//@include prelude/syserr_opaque.rs
//@use-missing syscalls.openat syscalls.openat_follow syscalls.readlinkat syscalls.mkdirat syscalls.mknodat syscalls.unlinkat syscalls.linkat syscalls.symlinkat syscalls.renameat syscalls.renameat2 syscalls.openat2
}
use syscalls::Error as SyscallError;
//@item src/error.rs :: enum ErrorKind | sub.ErrorKind
impl Error {
//@use error.Error.kind
}
impl ErrorKind {
//@use error.ErrorKind.errno
}
//@item src/capi/error.rs :: struct CError | sub.CError
impl Leakable for CError {}
//@prove capi.store_error.locked
impl CError {
//@prove capi.CError.from
}
//@prove capi.pathrs_errorinfo
} // verus!
fn main() {}
