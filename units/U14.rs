//@serves C05 C06 C07 C08 C09 C10 C11
//@tier A
//@include prelude/head.rs
verus! {
//@include prelude/bytes.rs
//@include prelude/flags.rs
//@include prelude/fd.rs
//@include prelude/path.rs
//@include prelude/error.rs
//@include prelude/mem.rs
//@include prelude/pathspec.rs
//@include prelude/shims.rs
//@include prelude/procfs_env.rs
//@include prelude/mountflags.rs
//@broadcast-here
pub type RawMode = u32;
pub mod syscalls {
    use super::*;
//@include prelude/syserr_opaque.rs
//@use syscalls.openat_follow u14
//@use syscalls.readlinkat
//@use syscalls.fstatfs a5
//@use syscalls.fsopen
//@use syscalls.fsconfig_set_string
//@use syscalls.fsconfig_create
//@use syscalls.fsmount
//@use syscalls.open_tree
    /// R7: `syscalls::AT_FDCWD` (rustix::fs::CWD)
    #[verifier::external_body]
    pub fn at_fdcwd() -> (r: BorrowedFd<'static>) ensures raw_of(r.id@) == libc::AT_FDCWD as int { unimplemented!() }
    /// R18: the one bootstrap use of `syscalls::openat(AT_FDCWD, "/proc", ..)` (new_unsafe_open): an absolute
    /// path relative to nothing -- legal only for the literal "/proc", which try_from_fd then verifies
    #[verifier::external_body]
    pub fn openat_bootstrap_proc(dirfd: BorrowedFd<'_>, path: &str, flags: OpenFlags, mode: u32) -> (r: Result<OwnedFd, Error>)
        requires
            raw_of(dirfd.id@) == libc::AT_FDCWD as int,
            path@ == "/proc"@,                                                   // [C05.bootstrap.only_the_literal_proc_path_is_opened_absolutely]
            has(flags.bits, libc::O_PATH | libc::O_DIRECTORY),                  // [C05.bootstrap.opath_directory]
        ensures r matches Ok(fd) ==> cloexec(fd.id()),
    { unimplemented!() }
//@use-missing syscalls.openat syscalls.openat_follow syscalls.readlinkat syscalls.mkdirat syscalls.mknodat syscalls.unlinkat syscalls.linkat syscalls.symlinkat syscalls.renameat syscalls.renameat2 syscalls.openat2
}
use syscalls::Error as SyscallError;
//@item src/error.rs :: enum ErrorKind | sub.ErrorKind
impl ErrorKind {
//@use error.ErrorKind.errno
}
impl Error {
//@use error.Error.kind
}
pub mod utils {
    use super::*;
//@use utils.fetch_mnt_id
//@use utils.path_split
//@use utils.path_strip_trailing_slash
}
//@item src/utils/fd.rs :: struct Metadata | sub.Metadata
impl Metadata {
//@use utils.Metadata.ino
}
pub trait FdExt: AsFd {
    /// utils/fd.rs FdExt::metadata (proved in U15)
    #[verifier::external_body]
    fn metadata(&self) -> (r: Result<Metadata, Error>)
        ensures r matches Ok(m) ==> m.0.st_ino == ino_of(self.fd_id())
    { unimplemented!() }
}
impl<T: AsFd> FdExt for T {}
//@item src/resolvers/procfs.rs :: enum ProcfsResolver | sub.ProcfsResolver
impl ProcfsResolver {
//@use rprocfs.ProcfsResolver.resolve
//@use rprocfs.ProcfsResolver.resolve nofollow_site as=resolve_nofollow_site
    #[verifier::external_body]
    pub fn default() -> ProcfsResolver { unimplemented!() }
}
//@item src/procfs.rs :: enum ProcfsBase | sub.ProcfsBase
impl ProcfsBase {
//@use procfs.ProcfsBase.into_path u14
}
impl Clone for ProcfsBase { fn clone(&self) -> (r: Self) ensures r == *self { *self } }
impl Copy for ProcfsBase {}
/// R6 (probe_is_subset): `["stat","1"].iter().any(|&p| rustix_fs::accessat(&inner, p, EXISTS, SYMLINK_NOFOLLOW).is_err())`
/// -- two literal single components looked up without following on the handle's own root
#[verifier::external_body]
pub fn probe_is_subset(inner: &OwnedFd) -> bool { unimplemented!() }

/// rigid: the base the caller of the ProcfsHandle operation named
pub uninterp spec fn requested_procfs_base() -> ProcfsBase;
//@item src/procfs.rs :: struct ProcfsHandle | sub.ProcfsHandle
//@prove procfs.verify_is_procfs
//@prove procfs.verify_same_mnt
impl ProcfsHandle {
//@item src/procfs.rs :: impl ProcfsHandle const PROC_ROOT_INO
    /// representation invariant: the handle is a procfs root whose mount id was recorded at creation
    #[verifier::type_invariant]
    pub closed spec fn wf(&self) -> bool {
        is_procfs(self.inner.id()) && (kernel_reports_mnt_ids() ==> mnt_of(self.inner.id()) == self.mnt_id)
    }
    pub closed spec fn mnt_id_spec(&self) -> Option<u64> { self.mnt_id }
    pub closed spec fn is_subset_spec(&self) -> bool { self.is_subset }
    pub closed spec fn inner_id(&self) -> int { self.inner.id() }
//@prove procfs.ProcfsHandle.verify_same_procfs_mnt
//@use procfs.ProcfsHandle.verify_same_procfs_mnt tok as=verify_same_procfs_mnt_tok
//@prove procfs.ProcfsHandle.open_base
//@use procfs.ProcfsHandle.open_base tok as=open_base_tok
//@prove procfs.ProcfsHandle.open u14
//@use procfs.ProcfsHandle.open fallback u14 as=open_nofollow_fallback
//@prove procfs.ProcfsHandle.readlink u14
//@use procfs.ProcfsHandle.readlink probe u14 as=readlink_probe
//@prove procfs.ProcfsHandle.open_follow u14
//@prove procfs.ProcfsHandle.try_from_fd
//@prove procfs.ProcfsHandle.new_fsopen
//@use procfs.ProcfsHandle.new_fsopen attempt as=new_fsopen_attempt
//@prove procfs.ProcfsHandle.new_open_tree
//@use procfs.ProcfsHandle.new_open_tree attempt as=new_open_tree_attempt
//@prove procfs.ProcfsHandle.new_unsafe_open
//@prove procfs.ProcfsHandle.new
//@prove procfs.ProcfsHandle.new_unmasked
}
} // verus!
fn main() {}
