//@serves C01 C02 C04 C05 C10 C12 C11 C03 C14
//@tier A
//@include prelude/head.rs
verus! {
//@include prelude/bytes.rs
//@include prelude/flags.rs
//@include prelude/fd.rs
//@include prelude/path.rs
//@include prelude/error.rs
//@include prelude/mem.rs
//@include prelude/pathspec.rs
//@include prelude/shims.rs
//@broadcast-here
pub type RawMode = u32;
pub mod syscalls {
    use super::*;
//@include prelude/syserr_opaque.rs
//@use syscalls.openat2
    /// R7: `*OPENAT2_IS_SUPPORTED` (a Lazy<bool>): arbitrary in the proof
    #[verifier::external_body]
    pub fn openat2_is_supported() -> bool { unimplemented!() }
//@use-missing syscalls.openat syscalls.openat_follow syscalls.readlinkat syscalls.mkdirat syscalls.mknodat syscalls.unlinkat syscalls.linkat syscalls.symlinkat syscalls.renameat syscalls.renameat2 syscalls.openat2
}
use syscalls::Error as SyscallError;
use syscalls::OpenHow;
//@item src/error.rs :: enum ErrorKind | sub.ErrorKind
impl Error {
//@use error.Error.is_safety_violation
}
//@item src/handle.rs :: struct Handle | sub.Handle
//@include prelude/handle.rs
impl Handle {
//@use handle.Handle.from_fd
}
//@item src/resolvers.rs :: enum PartialLookup | sub.PartialLookup
//@item src/utils/path.rs :: enum AncestorsIterState | sub.derive_debug
//@item src/utils/path.rs :: struct Ancestors | sub.derive_debug
impl<'p> Ancestors<'p> {
//@include prelude/ancestors_spec.rs
//@use utils.path.Ancestors.next
}
impl Path {
//@use utils.path.partial_ancestors
}
impl From<&Path> for PathBuf { #[verifier::external_body] fn from(p: &Path) -> (r: PathBuf) { unimplemented!() } }
impl From<&str> for PathBuf { #[verifier::external_body] fn from(p: &str) -> (r: PathBuf) { unimplemented!() } }
pub fn into_iter_shim<T>(t: T) -> (r: T) ensures r == t { t }
//@prove openat2.open
//@prove openat2.resolve
//@prove openat2.resolve_partial
} // verus!
fn main() {}
