//@serves C04 C05 C09 C10 C11 C14 C15 C01 C06 C07 C02 C03 C12 C13 C16
//@tier A
//@no-global G2
//@include prelude/head.rs
verus! {
//@include prelude/bytes.rs
//@include prelude/flags.rs
//@include prelude/fd.rs
//@include prelude/path.rs
//@include prelude/errbase.rs
//@include prelude/rustix.rs
//@include prelude/creds.rs
//@broadcast-here
pub type RawMode = u32;
pub struct OpenHowStub;
pub mod syscalls {
    use super::*;
//@broadcast-here
//@item src/syscalls.rs :: struct OpenHow | sub.OpenHow
//@item src/syscalls.rs :: enum Error | sub.strip
//@item src/syscalls.rs :: trait HotfixRustixFd
impl<Fd: AsFd + Sized> HotfixRustixFd for Fd {
//@prove syscalls.hotfix_rustix_fd
}
//@prove syscalls.devmajorminor
//@prove syscalls.openat_follow
//@prove syscalls.openat
//@prove syscalls.mkdirat u05
//@prove syscalls.mknodat u05
//@prove syscalls.unlinkat u05
//@prove syscalls.linkat u05
//@prove syscalls.symlinkat u05
//@prove syscalls.renameat u05
//@prove syscalls.renameat2 u05
//@prove syscalls.fstatfs
//@prove syscalls.fstatat
//@prove syscalls.statx
//@prove syscalls.openat2 u05
pub mod ledger {
    use super::*;
//@prove syscalls.openat2__ledger
}
pub mod errno_order {
    use super::*;
//@prove syscalls.openat2__errno
}
//@prove syscalls.fsopen
//@prove syscalls.fsconfig_set_string
//@prove syscalls.fsconfig_create
//@prove syscalls.fsmount
//@prove syscalls.open_tree
//@prove syscalls.geteuid
//@prove syscalls.readlinkat u05
}
} // verus!
fn main() {}
