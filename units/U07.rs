//@serves C15
//@tier A
//@include prelude/head.rs
verus! {
//@include prelude/bytes.rs
//@include prelude/flags.rs
//@include prelude/fd.rs
//@include prelude/path.rs
//@include prelude/error.rs
//@include prelude/c15.rs
//@broadcast-here
pub mod syscalls {
    use super::*;
//@include prelude/syserr_opaque.rs
//@use syscalls.geteuid u07
//@use-missing syscalls.openat syscalls.openat_follow syscalls.readlinkat syscalls.mkdirat syscalls.mknodat syscalls.unlinkat syscalls.linkat syscalls.symlinkat syscalls.renameat syscalls.renameat2 syscalls.openat2
}
use syscalls::Error as SyscallError;
//@item src/error.rs :: enum ErrorKind | sub.ErrorKind
#[verifier::external_body]
pub struct Metadata { _p: () }
impl Metadata {
    pub uninterp spec fn uid_spec(&self) -> u32;
    pub uninterp spec fn mode_spec(&self) -> u32;
    #[verifier::external_body]
    pub fn uid(&self) -> (r: u32) ensures r == self.uid_spec() { unimplemented!() }
    #[verifier::external_body]
    pub fn mode(&self) -> (r: u32) ensures r == self.mode_spec() { unimplemented!() }
}
pub uninterp spec fn meta_of(fd: int) -> Metadata;
pub trait FdExt: AsFd {
    /// fstat of the descriptor itself; within this unit each descriptor is stat'ed once, so
    /// "this fstat fails" is a (rigid, arbitrary) predicate of the descriptor
    #[verifier::external_body]
    fn metadata(&self) -> (r: Result<Metadata, Error>)
        ensures r matches Ok(m) ==> m == meta_of(self.fd_id()), r is Err <==> stat_fails(self.fd_id())
    { unimplemented!() }
}
impl<T: AsFd> FdExt for T {}
//@prove opath.may_follow_link
} // verus!
fn main() {}
