//@serves C10 C11 C14 C16 C17
//@tier A
//@include prelude/head.rs
verus! {
//@include prelude/bytes.rs
//@include prelude/flags.rs
//@include prelude/fd.rs
//@include prelude/path.rs
//@include prelude/error.rs
//@include prelude/capi_env.rs
//@broadcast-here
pub mod syscalls {
    use super::*;
//@include prelude/syserr_opaque.rs
//@use-missing syscalls.openat syscalls.openat_follow syscalls.readlinkat syscalls.mkdirat syscalls.mknodat syscalls.unlinkat syscalls.linkat syscalls.symlinkat syscalls.renameat syscalls.renameat2 syscalls.openat2
}
use syscalls::Error as SyscallError;
//@item src/error.rs :: enum ErrorKind | sub.ErrorKind
//@item src/handle.rs :: struct Handle | sub.Handle
//@include prelude/handle.rs
pub mod capi_error {
    use super::*;
//@use capi.store_error
}
//@item src/capi/ret.rs :: trait IntoCReturn | sub.pubtrait
impl IntoCReturn for () {
//@prove capi.ret.unit
}
impl IntoCReturn for CReturn {
//@prove capi.ret.CReturn
}
impl IntoCReturn for OwnedFd {
//@prove capi.ret.OwnedFd
}
impl IntoCReturn for Handle {
//@prove capi.ret.Handle
}
//@item src/resolvers.rs :: enum ResolverBackend | sub.ResolverBackend
//@item src/resolvers.rs :: struct Resolver | sub.Resolver
//@item src/root.rs :: struct Root | sub.Root
impl vstd::std_specs::convert::FromSpecImpl<Root> for OwnedFd {
    open spec fn obeys_from_spec() -> bool { true }
    open spec fn from_spec(r: Root) -> OwnedFd { r.inner }
}
impl From<Root> for OwnedFd {
//@prove root.From_Root_for_OwnedFd
}
impl Root {
//@use root.Root.open
}
impl IntoCReturn for Root {
//@prove capi.ret.Root
}
pub mod utils {
    use super::*;
//@use capi.parse_path
}
pub type RawFd = i32;
pub type c_uint = u32;
pub type dev_t = u64;
//@item src/capi/utils.rs :: struct CBorrowedFd | sub.CBorrowedFd
/// the C-level result of pathrs_inroot_mknod (its body is proved in U19 as `pathrs_inroot_mknod__body`, its
/// conversion to an int by the IntoCReturn impls above); here only *which call is made* matters
pub uninterp spec fn mknod_c_result(root_fd: CBorrowedFd<'_>, path: *const c_char, mode: c_uint, dev: dev_t) -> c_int;
#[verifier::external_body]
pub fn pathrs_inroot_mknod(root_fd: CBorrowedFd<'_>, path: *const c_char, mode: c_uint, dev: dev_t) -> (r: c_int)
    ensures r == mknod_c_result(root_fd, path, mode, dev)
{ unimplemented!() }
impl IntoCReturn for File {
//@prove capi.ret.File
}
impl<V> IntoCReturn for Result<V, Error>
where
    V: IntoCReturn,
{
//@prove capi.ret.Result
}
//@prove capi.pathrs_open_root
//@prove capi.pathrs_inroot_mkdir
} // verus!
fn main() {}
