//@serves C10 C11 C16
//@tier A
//@include prelude/head.rs
verus! {
//@include prelude/bytes.rs
//@include prelude/flags.rs
//@include prelude/fd.rs
//@include prelude/path.rs
//@include prelude/error.rs
//@include prelude/capi_env.rs
//@broadcast-here
pub mod syscalls {
    use super::*;
//@include prelude/syserr_opaque.rs
//@use-missing syscalls.openat syscalls.openat_follow syscalls.readlinkat syscalls.mkdirat syscalls.mknodat syscalls.unlinkat syscalls.linkat syscalls.symlinkat syscalls.renameat syscalls.renameat2 syscalls.openat2
}
use syscalls::Error as SyscallError;
//@item src/error.rs :: enum ErrorKind | sub.ErrorKind
//@item src/handle.rs :: struct Handle | sub.Handle
//@include prelude/handle.rs
pub mod capi_error {
    use super::*;
//@use capi.store_error
}
//@item src/capi/ret.rs :: trait IntoCReturn | sub.pubtrait
impl IntoCReturn for () {
//@prove capi.ret.unit
}
impl IntoCReturn for CReturn {
//@prove capi.ret.CReturn
}
impl IntoCReturn for OwnedFd {
//@prove capi.ret.OwnedFd
}
impl IntoCReturn for Handle {
//@prove capi.ret.Handle
}
impl IntoCReturn for File {
//@prove capi.ret.File
}
impl<V> IntoCReturn for Result<V, Error>
where
    V: IntoCReturn,
{
//@prove capi.ret.Result
}
} // verus!
fn main() {}
