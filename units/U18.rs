//@serves C05 C10 C11 C17
//@tier A
//@include prelude/head.rs
verus! {
//@include prelude/bytes.rs
//@include prelude/flags.rs
//@include prelude/fd.rs
//@include prelude/path.rs
//@include prelude/error.rs
//@include prelude/capi_env.rs
//@broadcast-here
pub mod syscalls {
    use super::*;
//@include prelude/syserr_opaque.rs
//@use-missing syscalls.openat syscalls.openat_follow syscalls.readlinkat syscalls.mkdirat syscalls.mknodat syscalls.unlinkat syscalls.linkat syscalls.symlinkat syscalls.renameat syscalls.renameat2 syscalls.openat2
}
use syscalls::Error as SyscallError;
//@item src/error.rs :: enum ErrorKind | sub.ErrorKind
//@item src/capi/utils.rs :: struct CBorrowedFd | sub.CBorrowedFd
impl<'fd> CBorrowedFd<'fd> {
//@prove capi.try_as_borrowed_fd
}
//@prove capi.parse_path
//@prove capi.copy_path_into_buffer
} // verus!
fn main() {}
