//@serves C06 C09 C10 C07
//@tier A
//@include prelude/head.rs
verus! {
//@include prelude/bytes.rs
//@include prelude/flags.rs
//@include prelude/fd.rs
//@include prelude/path.rs
//@include prelude/errbase.rs
//@include prelude/stat.rs
//@broadcast-here
pub fn pathbuf_lit(b: &'static [u8]) -> (r: PathBuf) ensures r@ == b@ { pathbuf_lit_ext(b) }
#[verifier::external_body]
pub fn pathbuf_lit_ext(b: &'static [u8]) -> (r: PathBuf) ensures r@ == b@ { unimplemented!() }
pub proof fn axiom_candidates_have_no_dotdot()
    ensures
        no_dotdot_component(seq![46u8]),
        no_dotdot_component(seq![115u8, 101u8, 108u8, 102u8]),
        no_dotdot_component(seq![116u8, 104u8, 114u8, 101u8, 97u8, 100u8, 45u8, 115u8, 101u8, 108u8, 102u8]),
        forall|t: i32| no_dotdot_component(#[trigger] self_task_spec(t)),
{ admit(); }
/// R5: `format!("self/task/{}", tid).into()`
pub uninterp spec fn self_task_spec(tid: i32) -> Seq<u8>;
#[verifier::external_body]
pub fn self_task_path(fmt: &str, tid: i32) -> (r: PathBuf)
    requires fmt@ == "self/task/{}"@,            // [C09+C10.into_path.pre_3_17_fallback_is_self_task_tid]
    ensures r@ == self_task_spec(tid)
{ unimplemented!() }
/// R6: `[a, b, c].into_iter().find(keep).unwrap_or_else(|| a')` with a' == a (std semantics, A7); the probe stays the code's closure
#[verifier::external_body]
pub fn first_existing_candidate<K: Fn(&PathBuf) -> bool>(a: PathBuf, b: PathBuf, c: PathBuf, keep: K) -> (r: PathBuf)
    requires forall|x: &PathBuf| #[trigger] keep.requires((x,)),
    ensures r@ == a@ || r@ == b@ || r@ == c@,
{ unimplemented!() }
pub mod syscalls {
    use super::*;
    #[verifier::external_body]
    pub fn gettid() -> i32 { unimplemented!() }
    #[verifier::external_body]
    pub fn at_fdcwd() -> (r: BorrowedFd<'static>) ensures raw_of(r.id@) == libc::AT_FDCWD as int { unimplemented!() }
}
pub mod rustix_fs {
    use super::*;
    /// `rustix::fs::statat` at the probe sites of into_path (existence test of a candidate name)
    #[verifier::external_body]
    pub fn statat_probe<Fd: AsFd, P: AsRefPath>(dirfd: Fd, path: P, flags: AtFlags) -> (r: Result<Stat, Errno>)
        requires
            valid_dirfd(dirfd.fd_id()),                    // [C05+C10.into_path.probe_on_a_valid_descriptor]
            flags.bits & 0x100u32 == 0x100u32,             // [C06+C09.into_path.probe_does_not_follow_symlinks]
    { unimplemented!() }
}
//@item src/procfs.rs :: enum ProcfsBase | sub.ProcfsBase
impl ProcfsBase {
//@prove procfs.ProcfsBase.into_path
}
} // verus!
fn main() {}
