//@serves C10 C01 C04 C15
//@tier A
//@include prelude/head.rs
verus! {
//@include prelude/bytes.rs
//@include prelude/flags.rs
//@include prelude/fd.rs
//@include prelude/path.rs
//@include prelude/error.rs
//@broadcast-here
pub mod syscalls {
    use super::*;
//@include prelude/syserr_opaque.rs
//@use-missing syscalls.openat syscalls.openat_follow syscalls.readlinkat syscalls.mkdirat syscalls.mknodat syscalls.unlinkat syscalls.linkat syscalls.symlinkat syscalls.renameat syscalls.renameat2 syscalls.openat2
}
use syscalls::Error as SyscallError;
//@item src/error.rs :: enum ErrorKind | sub.ErrorKind
impl core::fmt::Debug for Error { #[verifier::external_body] fn fmt(&self, f: &mut core::fmt::Formatter<'_>) -> core::fmt::Result { unimplemented!() } }
#[verifier::external_body]
pub struct ProcfsHandle { _p: () }
impl ProcfsHandle {
    /// procfs.rs ProcfsHandle::new: any of the three constructors may fail (A9)
    #[verifier::external_body]
    pub fn new() -> (r: Result<ProcfsHandle, Error>) { unimplemented!() }
}
#[verifier::external_body]
pub fn global_procfs_handle() -> (r: &'static ProcfsHandle) { unimplemented!() }
pub mod utils {
    use super::*;
//@frozen src/utils/sysctl.rs :: fn sysctl_read_parse
//@frozen src/utils/sysctl.rs :: fn sysctl_read_line
    /// utils/sysctl.rs sysctl_read_parse: open + read + parse of /proc/sys/...; each step may fail (A9)
    #[verifier::external_body]
    pub fn sysctl_read_parse(procfs: &ProcfsHandle, sysctl: &str) -> (r: Result<u32, Error>)
        requires sysctl@ == "fs.protected_symlinks"@,       // [C15.sysctl.the_switch_may_follow_link_consults_is_fs_protected_symlinks]
    { unimplemented!() }
}
// The two `Lazy` statics whose initialisers run at first use inside library operations (R7 gives the
// closure body a function of its own; `expect` is a panic-freedom obligation, C10):
/// rigid: the one-time probe `openat2(AT_FDCWD, ".", {})` of this process succeeds (reviewed exception of the C05 scan:
/// cwd-relative, no RESOLVE_* bits, result dropped at once)
pub uninterp spec fn openat2_probe_succeeds() -> bool;
#[verifier::external_body]
pub fn openat2_probe_cwd() -> (r: Result<OwnedFd, SyscallError>) ensures r is Ok <==> openat2_probe_succeeds() { unimplemented!() }
//@item src/syscalls.rs :: static OPENAT2_IS_SUPPORTED | sub.static_openat2_supported
//@item src/procfs.rs :: static GLOBAL_PROCFS_HANDLE | sub.static_global_procfs
//@item src/resolvers/opath/imp.rs :: static PROTECTED_SYMLINKS_SYSCTL | sub.static_sysctl
} // verus!
fn main() {}
