//@serves C01 C03 C04 C05 C07 C14 C10
//@tier A
//@include prelude/head.rs
verus! {
//@include prelude/bytes.rs
//@include prelude/flags.rs
//@include prelude/path.rs
//@include prelude/error.rs
//@include prelude/mem.rs
//@include prelude/pathspec.rs
use std::collections::VecDeque;
//@broadcast-here
pub mod syscalls {
    use super::*;
//@include prelude/syserr_opaque.rs
}
use syscalls::Error as SyscallError;
//@item src/error.rs :: enum ErrorKind | sub.ErrorKind

//@item src/utils/path.rs :: struct RawComponents | sub.derive_debug
//@item src/utils/path.rs :: enum AncestorsIterState | sub.derive_debug
//@item src/utils/path.rs :: struct Ancestors | sub.derive_debug

impl<'a> RawComponents<'a> {
//@prove utils.path.RawComponents.next
//@prove utils.path.RawComponents.next_back
//@prove utils.path.RawComponents.prepend
}
impl<'p> Ancestors<'p> {
//@include prelude/ancestors_spec.rs
//@prove utils.path.Ancestors.next
}
//@item src/utils/path.rs :: trait PathIterExt
impl PathIterExt for Path {
//@prove utils.path.raw_components
//@prove utils.path.partial_ancestors
}
//@prove utils.path_split
//@prove utils.path_strip_trailing_slash
} // verus!
fn main() {}
