//@serves C02 C06 C09 C10 C11 C12 C01 C04
//@tier A
//@include prelude/head.rs
verus! {
//@include prelude/bytes.rs
//@include prelude/flags.rs
//@include prelude/fd.rs
//@include prelude/path.rs
//@include prelude/error.rs
//@include prelude/shims.rs
//@include prelude/procfs_env.rs
//@broadcast-here
pub trait AsRawFdSpec { }
pub mod syscalls {
    use super::*;
//@include prelude/syserr_opaque.rs
//@use syscalls.fstatat a5
//@use syscalls.fstatfs a5
//@use syscalls.statx a5
//@use-missing syscalls.openat syscalls.openat_follow syscalls.readlinkat syscalls.mkdirat syscalls.mknodat syscalls.unlinkat syscalls.linkat syscalls.symlinkat syscalls.renameat syscalls.renameat2 syscalls.openat2
}
use syscalls::Error as SyscallError;
//@item src/error.rs :: enum ErrorKind | sub.ErrorKind
//@item src/procfs.rs :: enum ProcfsBase | sub.ProcfsBase
#[verifier::external_body]
pub struct ProcfsHandle { _p: () }
impl ProcfsHandle {
    pub uninterp spec fn wf(&self) -> bool;
//@use procfs.ProcfsHandle.open_follow tokens
//@use procfs.ProcfsHandle.readlink tokens
}
//@item src/utils/fd.rs :: struct Metadata | sub.Metadata
impl Metadata {
//@prove utils.Metadata.is_symlink
//@prove utils.Metadata.mode
//@prove utils.Metadata.ino
}
//@item src/utils/fd.rs :: const DANGEROUS_FILESYSTEMS
//@item src/utils/fd.rs :: trait FdExt
//@prove utils.proc_subpath
impl<Fd: AsFd> FdExt for Fd {
//@prove utils.FdExt.metadata
//@prove utils.FdExt.reopen
//@prove utils.FdExt.as_unsafe_path
//@use utils.FdExt.as_unsafe_path_unchecked
//@prove utils.FdExt.is_magiclink_filesystem
}
//@prove utils.fetch_mnt_id
} // verus!
fn main() {}
