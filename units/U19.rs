//@serves C10 C11 C14 C17 C16 C06
//@tier A
//@include prelude/head.rs
verus! {
//@include prelude/bytes.rs
//@include prelude/flags.rs
//@include prelude/fd.rs
//@include prelude/path.rs
//@include prelude/error.rs
//@include prelude/pathspec.rs
//@include prelude/root_types.rs
//@include prelude/shims.rs
//@include prelude/capi_env.rs
//@broadcast-here
pub type c_uint = u32;
pub type dev_t = u64;
pub mod syscalls {
    use super::*;
//@include prelude/syserr_opaque.rs
//@use-missing syscalls.openat syscalls.openat_follow syscalls.readlinkat syscalls.mkdirat syscalls.mknodat syscalls.unlinkat syscalls.linkat syscalls.symlinkat syscalls.renameat syscalls.renameat2 syscalls.openat2
}
use syscalls::Error as SyscallError;
//@item src/error.rs :: enum ErrorKind | sub.ErrorKind
impl Permissions {
    #[verifier::external_body]
    pub fn from_mode(mode: u32) -> (r: Permissions) ensures r.mode_spec() == mode { unimplemented!() }
}
impl From<&Path> for PathBuf { #[verifier::external_body] fn from(p: &Path) -> (r: PathBuf) ensures r@ == p@ { unimplemented!() } }
impl vstd::std_specs::convert::FromSpecImpl<&Path> for PathBuf {
    open spec fn obeys_from_spec() -> bool { false }
    uninterp spec fn from_spec(p: &Path) -> PathBuf;
}
pub open spec fn mknod_fmt_supported(fmt: u32) -> bool {
    fmt == libc::S_IFREG || fmt == libc::S_IFDIR || fmt == libc::S_IFBLK || fmt == libc::S_IFCHR || fmt == libc::S_IFIFO
}
//@item src/handle.rs :: struct Handle | sub.Handle
//@include prelude/handle.rs
#[verifier::external_body]
pub struct ProcfsHandle { _p: () }
/// R7: `&GLOBAL_PROCFS_HANDLE` (a Lazy; its initialiser is a known finding, C10)
#[verifier::external_body]
pub fn global_procfs_handle() -> (r: &'static ProcfsHandle) { unimplemented!() }
pub trait FdExt: AsFd {
    /// utils/fd.rs FdExt::reopen (proved in U15)
    #[verifier::external_body]
    fn reopen(&self, procfs: &ProcfsHandle, flags: OpenFlags) -> (r: Result<OwnedFd, Error>) { unimplemented!() }
}
impl<T: AsFd> FdExt for T {}
//@item src/resolvers.rs :: enum ResolverBackend | sub.ResolverBackend
//@item src/resolvers.rs :: struct Resolver | sub.Resolver
//@include prelude/resolver_cfg.rs
//@item src/root.rs :: enum InodeType | sub.InodeType
//@item src/root.rs :: struct RootRef | sub.RootRef
pub open spec fn inode_fmt(t: InodeType) -> u32 {
    match t {
        InodeType::File(_) => libc::S_IFREG,
        InodeType::Directory(_) => libc::S_IFDIR,
        InodeType::Fifo(_) => libc::S_IFIFO,
        InodeType::CharacterDevice(_, _) => libc::S_IFCHR,
        InodeType::BlockDevice(_, _) => libc::S_IFBLK,
        _ => requested_fmt(),
    }
}
pub open spec fn inode_mode(t: InodeType) -> u32 {
    match t {
        InodeType::File(p) => p.mode_spec(),
        InodeType::Directory(p) => p.mode_spec(),
        InodeType::Fifo(p) => p.mode_spec(),
        InodeType::CharacterDevice(p, _) => p.mode_spec(),
        InodeType::BlockDevice(p, _) => p.mode_spec(),
        _ => requested_mode(),
    }
}
pub open spec fn inode_dev(t: InodeType) -> u64 {
    match t {
        InodeType::CharacterDevice(_, d) => d,
        InodeType::BlockDevice(_, d) => d,
        InodeType::Symlink(_) => requested_dev(),
        InodeType::Hardlink(_) => requested_dev(),
        _ => 0,
    }
}
pub open spec fn inode_target(t: InodeType) -> Seq<u8> {
    match t {
        InodeType::Symlink(p) => p@,
        InodeType::Hardlink(p) => p@,
        _ => requested_path(1),
    }
}
impl RootRef<'_> {
//@use root.RootRef.from_fd a0
//@use root.RootRef.resolve
//@use root.RootRef.resolve_nofollow
//@use root.RootRef.open_subpath
//@use root.RootRef.readlink
//@use root.RootRef.create capi
//@use root.RootRef.create_file
//@use root.RootRef.mkdir_all
//@use root.RootRef.remove_dir
//@use root.RootRef.remove_file
//@use root.RootRef.remove_all
//@use root.RootRef.rename
}
//@item src/root.rs :: struct Root | sub.Root
impl Root {
//@use root.Root.from_fd
//@use root.Root.create
}
impl vstd::std_specs::convert::FromSpecImpl<Root> for OwnedFd {
    open spec fn obeys_from_spec() -> bool { true }
    open spec fn from_spec(r: Root) -> OwnedFd { r.inner }
}
impl From<Root> for OwnedFd {
//@use root.From_Root_for_OwnedFd
}
//@item src/capi/utils.rs :: struct CBorrowedFd | sub.CBorrowedFd
impl<'fd> CBorrowedFd<'fd> {
//@use capi.try_as_borrowed_fd
}
pub mod utils {
    use super::*;
//@use capi.parse_path
//@use capi.copy_path_into_buffer
}
//@prove capi.pathrs_reopen
//@prove capi.pathrs_inroot_resolve
//@prove capi.pathrs_inroot_resolve_nofollow
//@prove capi.pathrs_inroot_open
//@prove capi.pathrs_inroot_readlink
//@prove capi.pathrs_inroot_rename
//@prove capi.pathrs_inroot_rmdir
//@prove capi.pathrs_inroot_unlink
//@prove capi.pathrs_inroot_remove_all
//@prove capi.pathrs_inroot_creat
//@prove capi.pathrs_inroot_mkdir_all
//@prove capi.pathrs_inroot_mknod capi
//@prove capi.pathrs_inroot_symlink
//@prove capi.pathrs_inroot_hardlink
//@item src/procfs.rs :: enum ProcfsBase | sub.ProcfsBase
impl Clone for ProcfsBase { fn clone(&self) -> (r: Self) ensures r == *self { *self } }
impl Copy for ProcfsBase {}
/// capi/procfs.rs `#[open_enum] #[repr(u64)] enum CProcfsBase` expands to a transparent struct over
/// u64 with one associated constant per variant (macro expansion; model, values as in the source)
#[derive(PartialEq, Eq, Clone, Copy, Structural)]
pub struct CProcfsBase(pub u64);
impl CProcfsBase {
    pub const PATHRS_PROC_ROOT: CProcfsBase = CProcfsBase(0x5001_FFFF);
    pub const PATHRS_PROC_SELF: CProcfsBase = CProcfsBase(0x091D_5E1F);
    pub const PATHRS_PROC_THREAD_SELF: CProcfsBase = CProcfsBase(0x3EAD_5E1F);
}
impl ProcfsBase {
//@prove capi.CProcfsBase.try_from
}
impl ProcfsHandle {
    pub uninterp spec fn mnt_id_spec(&self) -> Option<u64>;
    pub uninterp spec fn is_subset_spec(&self) -> bool;
//@use procfs.ProcfsHandle.open
//@use procfs.ProcfsHandle.open_follow
//@use procfs.ProcfsHandle.readlink
}
//@prove capi.pathrs_proc_open
//@prove capi.pathrs_proc_readlink
} // verus!
fn main() {}
