//@serves C01 C02 C05 C10 C11 C15
//@tier A
//@include prelude/head.rs
verus! {
//@include prelude/bytes.rs
//@include prelude/flags.rs
//@include prelude/fd.rs
//@include prelude/path.rs
//@include prelude/error.rs
//@include prelude/pathspec.rs
//@include prelude/resolver_env.rs
//@broadcast-here
pub type RawMode = u32;
pub mod syscalls {
    use super::*;
//@include prelude/syserr_opaque.rs
}
use syscalls::Error as SyscallError;
//@item src/error.rs :: enum ErrorKind | sub.ErrorKind
//@prove opath.check_current
} // verus!
fn main() {}
