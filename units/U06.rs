//@serves C01 C02 C05 C10 C15 C11 C12 C03 C04 C14
//@tier A
//@include prelude/head.rs
verus! {
//@include prelude/bytes.rs
//@include prelude/flags.rs
//@include prelude/fd.rs
//@include prelude/path.rs
//@include prelude/error.rs
//@include prelude/pathspec.rs
//@include prelude/c15.rs
//@include prelude/resolver_env.rs
//@include prelude/symlink_stack_spec.rs
//@broadcast-here
pub type RawMode = u32;
pub mod syscalls {
    use super::*;
//@include prelude/syserr_opaque.rs
//@use syscalls.openat u06
//@use syscalls.readlinkat u06
//@use-missing syscalls.openat syscalls.openat_follow syscalls.readlinkat syscalls.mkdirat syscalls.mknodat syscalls.unlinkat syscalls.linkat syscalls.symlinkat syscalls.renameat syscalls.renameat2 syscalls.openat2
}
use syscalls::Error as SyscallError;
//@item src/error.rs :: enum ErrorKind | sub.ErrorKind
//@item src/resolvers.rs :: const MAX_SYMLINK_TRAVERSALS
//@item src/resolvers.rs :: enum PartialLookup | sub.PartialLookup
pub mod fmt { pub use core::fmt::Debug; }
//@item src/resolvers/opath/symlink_stack.rs :: struct SymlinkStackEntry | sub.SymlinkStackEntry
//@item src/resolvers/opath/symlink_stack.rs :: struct SymlinkStack | sub.SymlinkStack
impl<F: fmt::Debug> SymlinkStackEntry<F> {
    pub open spec fn v(&self) -> EntryV<F> { EntryV { dir: self.state.0, rem: self.state.1@, parts: cv(self.unwalked_link_parts@) } }
}
impl<F: fmt::Debug> SymlinkStack<F> {
    pub open spec fn view(&self) -> Seq<EntryV<F>> { self.0@.map_values(|e: SymlinkStackEntry<F>| e.v()) }
//@use ss.pop_part
//@use ss.swap_link
//@use ss.pop_top_symlink
//@use ss.new
}
/// R20: `Option<&mut SymlinkStack<OwnedFd>>` as a struct behind one `&mut` (present == Some)
pub struct OptStack { pub present: bool, pub stack: SymlinkStack<OwnedFd> }
impl RawComponents<'_> {
//@use utils.path.RawComponents.prepend
}
//@prove opath.check_current
//@use opath.may_follow_link
//@item src/handle.rs :: struct Handle | sub.Handle
//@include prelude/handle.rs
impl PartialLookup<Rc<OwnedFd>> {
//@use resolvers.PartialLookup.try_into_handle_rc
}
//@prove opath.do_resolve u06
//@prove opath.resolve_partial u06
//@prove opath.resolve u06
} // verus!
fn main() {}
