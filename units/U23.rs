//@serves C01 C04
//@tier A
//@include prelude/head.rs
verus! {
//@include prelude/bytes.rs
//@include prelude/flags.rs
//@include prelude/fd.rs
//@include prelude/path.rs
//@include prelude/error.rs
//@include prelude/pathspec.rs
//@include prelude/c15.rs
//@include prelude/static_fs.rs
//@include prelude/resolver_static.rs
//@broadcast-here
pub type RawMode = u32;
pub mod syscalls {
    use super::*;
//@include prelude/syserr_opaque.rs
//@use syscalls.openat__static
//@use syscalls.readlinkat__static
//@use-missing syscalls.openat syscalls.openat_follow syscalls.readlinkat syscalls.mkdirat syscalls.mknodat syscalls.unlinkat syscalls.linkat syscalls.symlinkat syscalls.renameat syscalls.renameat2 syscalls.openat2
}
use syscalls::Error as SyscallError;
//@item src/error.rs :: enum ErrorKind | sub.ErrorKind
//@item src/resolvers.rs :: const MAX_SYMLINK_TRAVERSALS
//@item src/resolvers.rs :: enum PartialLookup | sub.PartialLookup
impl RawComponents<'_> {
//@use utils.path.RawComponents.prepend
}
//@use opath.check_current__static
//@use opath.may_follow_link__static
//@prove opath.do_resolve__static
} // verus!
fn main() {}
