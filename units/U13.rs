//@serves C05 C06 C07 C10 C11 C09
//@tier A
//@include prelude/head.rs
verus! {
//@include prelude/bytes.rs
//@include prelude/flags.rs
//@include prelude/fd.rs
//@include prelude/path.rs
//@include prelude/error.rs
//@include prelude/pathspec.rs
//@include prelude/c15.rs
//@include prelude/resolver_env.rs
//@include prelude/symlink_stack_stub.rs
//@broadcast-here
pub type RawMode = u32;
pub mod syscalls {
    use super::*;
//@include prelude/syserr_opaque.rs
//@use syscalls.openat u13
//@use syscalls.openat2
//@use syscalls.readlinkat u13
    #[verifier::external_body]
    pub fn openat2_is_supported() -> bool { unimplemented!() }
//@use-missing syscalls.openat syscalls.openat_follow syscalls.readlinkat syscalls.mkdirat syscalls.mknodat syscalls.unlinkat syscalls.linkat syscalls.symlinkat syscalls.renameat syscalls.renameat2 syscalls.openat2
}
use syscalls::Error as SyscallError;
use syscalls::OpenHow;
//@item src/error.rs :: enum ErrorKind | sub.ErrorKind
//@item src/resolvers.rs :: const MAX_SYMLINK_TRAVERSALS
impl RawComponents<'_> {
//@use utils.path.RawComponents.prepend u13
}
pub mod utils {
    use super::*;
//@use utils.fetch_mnt_id
}
pub mod procfs {
    use super::*;
//@use procfs.verify_same_mnt
}
//@item src/resolvers/procfs.rs :: enum ProcfsResolver | sub.ProcfsResolver
//@prove rprocfs.openat2_resolve
//@prove rprocfs.opath_resolve u13
impl ProcfsResolver {
//@prove rprocfs.ProcfsResolver.resolve u13
}
} // verus!
fn main() {}
