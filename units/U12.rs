//@serves C03 C05 C13 C10
//@tier A
//@include prelude/head.rs
verus! {
//@include prelude/bytes.rs
//@include prelude/flags.rs
//@include prelude/fd.rs
//@include prelude/path.rs
//@include prelude/error.rs
//@include prelude/pathspec.rs
//@include prelude/dir.rs

//@broadcast-here
pub type RawMode = u32;
pub mod syscalls {
    use super::*;
//@include prelude/syserr_opaque.rs
//@use syscalls.unlinkat gone
//@use syscalls.openat gone
//@use-missing syscalls.openat syscalls.openat_follow syscalls.readlinkat syscalls.mkdirat syscalls.mknodat syscalls.unlinkat syscalls.linkat syscalls.symlinkat syscalls.renameat syscalls.renameat2 syscalls.openat2
}
use syscalls::Error as SyscallError;

//@item src/error.rs :: enum ErrorKind | sub.ErrorKind
impl Error {
//@use error.Error.kind
}
impl ErrorImpl {
//@use error.ErrorImpl.kind
}
impl ErrorKind {
//@use error.ErrorKind.errno
}

//@item src/utils/dir.rs :: trait RmdirResultExt
impl RmdirResultExt for Result<(), Error> {
//@prove utils.dir.ignore_enoent
}
//@prove utils.dir.remove_inode
/// R18: the recursive `remove_all(&subdir, name)` of the scan loop, with a ghost record of the children whose removal failed
/// with something else than ENOENT (same contract as `remove_all` itself, see contracts/utils.dir.remove_all.spec)
#[verifier::external_body]
pub fn remove_all_child<Fd: AsFd>(dirfd: Fd, name: &Path, failed: &mut Ghost<int>) -> (r: Result<(), Error>)
    requires
        lineage(dirfd.fd_id()),            // [C03+C13.remove_all.dir_in_root]
        name@.len() > 0,                   // [C05.remove_all.nonempty_name]
    ensures
        r matches Err(e) ==> e.errno_spec() != Some(libc::ENOENT),
        final(failed)@ == old(failed)@ + (if r is Err { 1int } else { 0int }),
{ unimplemented!() }
//@prove utils.dir.remove_all

} // verus!
fn main() {}
