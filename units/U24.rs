//@serves C07
//@tier A
//@include prelude/head.rs
verus! {
//@include prelude/bytes.rs
//@include prelude/flags.rs
//@include prelude/fd.rs
//@include prelude/path.rs
//@include prelude/error.rs
//@include prelude/pathspec.rs
//@include prelude/c15.rs
//@include prelude/static_fs.rs
//@include prelude/static_procfs.rs
//@include prelude/resolver_static.rs
//@include prelude/symlink_stack_stub_static.rs
//@broadcast-here
pub type RawMode = u32;
pub mod syscalls {
    use super::*;
//@include prelude/syserr_opaque.rs
//@use syscalls.openat__pstatic
//@use syscalls.readlinkat__pstatic
}
use syscalls::Error as SyscallError;
//@item src/error.rs :: enum ErrorKind | sub.ErrorKind
//@item src/resolvers.rs :: const MAX_SYMLINK_TRAVERSALS
//@item src/resolvers.rs :: enum PartialLookup | sub.PartialLookup
impl RawComponents<'_> {
//@use utils.path.RawComponents.prepend
}
pub mod utils {
    use super::*;
//@use utils.fetch_mnt_id__pstatic
}
pub mod procfs {
    use super::*;
//@use procfs.verify_same_mnt__pstatic
}
//@prove rprocfs.opath_resolve__pstatic
} // verus!
fn main() {}
