//@serves C10 C16
//@tier A
//@include prelude/head.rs
verus! {
//@include prelude/bytes.rs
//@include prelude/flags.rs
//@include prelude/fd.rs
//@include prelude/path.rs
//@include prelude/error.rs
//@broadcast-here
pub mod syscalls {
    use super::*;
//@include prelude/syserr_opaque.rs
}
use syscalls::Error as SyscallError;
//@item src/error.rs :: enum ErrorKind | sub.ErrorKind
impl ErrorImpl {
//@prove error.ErrorImpl.kind
//@prove error.ErrorImpl.is_safety_violation
}
impl Error {
//@prove error.Error.kind
//@prove error.Error.is_safety_violation
}
impl ErrorKind {
//@prove error.ErrorKind.errno
//@prove error.ErrorKind.is_safety_violation
}
} // verus!
fn main() {}
