//@serves C10 C16
//@tier A
//@include prelude/head.rs
verus! {
//@include prelude/bytes.rs
//@include prelude/flags.rs
//@include prelude/fd.rs
//@include prelude/path.rs
//@include prelude/error.rs
//@broadcast-here
pub mod syscalls {
    use super::*;
//@include prelude/syserr_opaque.rs
//@use-missing syscalls.openat syscalls.openat_follow syscalls.readlinkat syscalls.mkdirat syscalls.mknodat syscalls.unlinkat syscalls.linkat syscalls.symlinkat syscalls.renameat syscalls.renameat2 syscalls.openat2
}
use syscalls::Error as SyscallError;
//@item src/error.rs :: enum ErrorKind | sub.ErrorKind
/// A7 (std): `Box::from(t)` boxes exactly `t` (used by `self.into()` in `with_wrap`)
pub assume_specification<T>[<Box<T> as core::convert::From<T>>::from](t: T) -> (r: Box<T>) ensures *r == t;
impl ErrorImpl {
//@prove error.ErrorImpl.kind
//@prove error.ErrorImpl.is_safety_violation
//@prove error.ErrorImpl.with_wrap
}
impl Error {
//@prove error.Error.kind
//@prove error.Error.is_safety_violation
//@prove error.Error.with_wrap
}
impl ErrorKind {
//@prove error.ErrorKind.errno
//@prove error.ErrorKind.is_safety_violation
}
} // verus!
fn main() {}
