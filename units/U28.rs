//@serves C05 C04 C09 C14
//@tier A
//@include prelude/head.rs
verus! {
//@include prelude/bytes.rs
//@include prelude/flags.rs
//@include prelude/rustix_flags.rs
//@broadcast-here
impl From<OpenFlags> for OFlags {
//@prove flags.OpenFlags.into_rustix
}
impl From<RenameFlags> for RustixRenameFlags {
//@prove flags.RenameFlags.into_rustix
}
} // verus!
fn main() {}
