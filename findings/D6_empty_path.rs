// Demonstration for finding D6 (C01, C04): the empty path.  openat2(2) has no AT_EMPTY_PATH, so the
// kernel backend fails with ENOENT; the emulated backend returned a handle to the root.
#[cfg(test)]
mod verif_replay_d6 {
    use crate::{resolvers::ResolverBackend, Root};

    #[test]
    fn verif_replay_d6_empty_path() {
        let tmp = tempfile::tempdir().unwrap();
        let mut results = vec![];
        for backend in [ResolverBackend::KernelOpenat2, ResolverBackend::EmulatedOpath] {
            if !backend.supported() { continue; }
            let root = Root::open(tmp.path()).unwrap().with_resolver_backend(backend);
            let r = root.resolve("").map(|_| ()).map_err(|e| e.kind());
            let o = root.open_subpath("", crate::flags::OpenFlags::O_RDONLY).map(|_| ()).map_err(|e| e.kind());
            eprintln!("{backend:?}: resolve(\"\") = {r:?}, open_subpath(\"\") = {o:?}");
            results.push((r, o));
        }
        if results.len() == 2 {
            assert_eq!(results[0], results[1], "the two backends disagree on the empty path");
        }
        for (r, _) in &results {
            assert_eq!(*r, Err(crate::error::ErrorKind::OsError(Some(libc::ENOENT))), "kernel in-root resolution of \"\" is ENOENT");
        }
    }
}
