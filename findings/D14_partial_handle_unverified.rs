// Demonstration for finding D14 (C03, C12; mechanism of C02): partial lookups of the emulated backend were not
// covered by any procfs path check, so Root::mkdir_all() could create a directory inside a directory that was never
// inside the root (racing attacker: move O out of the root, put X into it, restore).  Written by a seeded-change
// sub-agent as a side finding on the unmodified tree; module renamed.
#[cfg(test)]
mod verif_replay_d14 {
    use crate::{resolvers::ResolverBackend, Root};

    use std::{
        fs,
        os::unix::fs::PermissionsExt,
        path::PathBuf,
        sync::atomic::{AtomicBool, AtomicU64, Ordering},
        thread,
        time::{Duration, Instant},
    };

    fn spin(us: u64) {
        let end = Instant::now() + Duration::from_micros(us);
        while Instant::now() < end {
            std::hint::spin_loop();
        }
    }

    /// tmp/root/a/b/     "a" is directory O
    /// tmp/root/a/x      regular file (so that mkdir_all("a/.../x/newdir") can
    ///                   never legitimately succeed: ENOTDIR)
    /// tmp/stash/x/      directory X, NEVER reachable from tmp/root
    ///
    /// Attacker cycle: [O in root, X in stash] W1; rename(root/a -> out);
    /// exchange(stash/x <-> out/x); W2; exchange(stash/x <-> out/x);
    /// rename(out -> root/a).  X is inside O only while O is outside the root.
    #[test]
    fn verif_replay_d14_mkdir_all_in_dir_never_in_root() {
        let tmp = tempfile::TempDir::new().expect("tmpdir");
        let base = tmp.path().canonicalize().expect("canonicalize tmpdir");
        let root_dir = base.join("root");
        let o_in = root_dir.join("a");
        let o_out = base.join("out");
        let x_stash = base.join("stash/x");
        let x_in_o_out = o_out.join("x");

        fs::create_dir_all(o_in.join("b")).unwrap();
        fs::create_dir_all(&x_stash).unwrap();
        fs::write(o_in.join("x"), "placeholder").unwrap();
        let exchange = |a: &PathBuf, b: &PathBuf| {
            crate::syscalls::renameat2(
                crate::syscalls::AT_FDCWD,
                a,
                crate::syscalls::AT_FDCWD,
                b,
                crate::flags::RenameFlags::RENAME_EXCHANGE,
            )
            .expect("exchange")
        };

        let mut root = Root::open(&root_dir).expect("open root");
        root.set_resolver_backend(ResolverBackend::EmulatedOpath);

        let mut path = PathBuf::from("a/b/..");
        for _ in 0..64 {
            path.push(".");
        }
        path.push("x");
        path.push("newdir");

        let stop = AtomicBool::new(false);
        let cycles = AtomicU64::new(0);

        let (lookups, oks) = thread::scope(|s| {
            s.spawn(|| {
                let windows = [20u64, 50, 100, 200, 400, 800];
                let mut n = 0usize;
                while !stop.load(Ordering::Relaxed) {
                    let w = windows[(n / 64) % windows.len()];
                    n += 1;
                    spin(w);
                    fs::rename(&o_in, &o_out).expect("move O out of the root");
                    exchange(&x_stash, &x_in_o_out); // X into O, file out
                    spin(w);
                    exchange(&x_stash, &x_in_o_out); // X out of O, file back
                    fs::rename(&o_out, &o_in).expect("move O back into the root");
                    cycles.fetch_add(1, Ordering::Relaxed);
                }
            });

            let deadline = Instant::now() + Duration::from_secs(10);
            let (mut lookups, mut oks) = (0u64, 0u64);
            while Instant::now() < deadline && oks == 0 {
                lookups += 1;
                if root
                    .mkdir_all(&path, &fs::Permissions::from_mode(0o755))
                    .is_ok()
                {
                    oks += 1;
                }
            }
            stop.store(true, Ordering::Relaxed);
            (lookups, oks)
        });

        let created_outside = x_stash.is_dir() && x_stash.join("newdir").exists();
        eprintln!(
            "c02 extra: {lookups} mkdir_all calls, {oks} Ok, {} attacker cycles, stash/x/newdir exists: {created_outside}",
            cycles.load(Ordering::Relaxed)
        );
        assert!(
            oks == 0 && !created_outside,
            "mkdir_all succeeded / created a directory inside stash/x, which was never inside the root"
        );
    }
}
