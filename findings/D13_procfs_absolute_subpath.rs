// Demonstration for finding D13 (C07): an absolute sub-path.  The kernel-backed procfs resolver uses
// RESOLVE_BENEATH, which refuses absolute paths with EXDEV; the emulated one treated the leading '/' as an
// empty component and resolved the rest ("/status" opened /proc/<pid>/status).  Side finding of a
// seeded-change sub-agent on the unmodified tree.
#[cfg(test)]
mod verif_replay_d13 {
    use crate::{error::ErrorKind, flags::{OpenFlags, ResolverFlags}, resolvers::procfs::ProcfsResolver};
    use std::fs::File;

    fn outcome(r: ProcfsResolver, root: &File, path: &str) -> Result<(), ErrorKind> {
        r.resolve(root, path, OpenFlags::O_RDONLY | OpenFlags::O_NOFOLLOW, ResolverFlags::empty()).map(|_| ()).map_err(|e| e.kind())
    }

    #[test]
    fn verif_replay_d13_absolute_subpath() {
        if !*crate::syscalls::OPENAT2_IS_SUPPORTED { return; }
        let root = File::open("/proc/self").unwrap();
        let mut bad = vec![];
        for p in ["status", "/status", "//status", "/", "/./status"] {
            let k = outcome(ProcfsResolver::Openat2, &root, p);
            let e = outcome(ProcfsResolver::RestrictedOpath, &root, p);
            eprintln!("{p:>10}: openat2={k:?} emulated={e:?}");
            if k != e { bad.push(p); }
        }
        assert!(bad.is_empty(), "the two procfs resolvers disagree for {bad:?}");
    }
}
