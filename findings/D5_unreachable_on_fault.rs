// Demonstration for finding D5 (C10): a failing openat2(2) during the ancestor probing of
// openat2::resolve_partial reaches `unreachable!()` and panics.  Run under
//   strace -f -o /dev/null -e trace=openat2 -e inject=openat2:error=EMFILE:when=3+
// (1st openat2 = OPENAT2_IS_SUPPORTED probe, 2nd = lookup of "newdir" -> ENOENT,
//  3rd = lookup of the ancestor "." -> injected EMFILE).
#[cfg(test)]
mod verif_replay_d5 {
    use crate::{error::ErrorKind, resolvers::ResolverBackend, Root};
    use std::{fs::Permissions, os::unix::fs::PermissionsExt};

    #[test]
    fn verif_replay_d5_mkdir_all_fault() {
        let tmp = tempfile::tempdir().unwrap();
        if !ResolverBackend::KernelOpenat2.supported() { return; }
        let root = Root::open(tmp.path()).unwrap().with_resolver_backend(ResolverBackend::KernelOpenat2);
        let r = std::panic::catch_unwind(std::panic::AssertUnwindSafe(|| {
            root.mkdir_all("newdir", &Permissions::from_mode(0o755)).map(|_| ()).map_err(|e| e.kind())
        }));
        eprintln!("mkdir_all under fault injection = {r:?}");
        match r {
            Err(_) => panic!("mkdir_all PANICKED on a failing system call"),
            Ok(Ok(())) => {}
            Ok(Err(k)) => assert!(matches!(k, ErrorKind::OsError(_)), "unexpected error kind {k:?}"),
        }
    }
}
