// Demonstration for finding D22 (C07, C09): ProcfsHandle::open_follow() refuses creation flags *before* it turns a trailing
// '/' into O_DIRECTORY.  O_TMPFILE is __O_TMPFILE|O_DIRECTORY, so the raw bit __O_TMPFILE (0o20000000) alone passes the test,
// the trailing slash completes it, and the following open of the magic-link creates an unnamed file in its target directory:
// open_follow(ProcSelf, "cwd/", __O_TMPFILE|O_RDWR) returned Ok(file "<cwd>/#<ino> (deleted)").
// Reported by a seeded-change sub-agent as an observation on the unmodified tree; module renamed.
#[cfg(test)]
mod verif_replay_d22 {
    use crate::{
        error::ErrorKind,
        flags::OpenFlags,
        procfs::{ProcfsBase, ProcfsHandle},
    };

    #[test]
    fn verif_replay_d22_open_follow_never_creates() {
        let procfs = ProcfsHandle::new().expect("procfs handle");
        // __O_TMPFILE without O_DIRECTORY: not a creation flag by itself, the kernel ignores it
        let raw_tmpfile = OpenFlags::from_bits_retain(0o20000000) | OpenFlags::O_RDWR;
        let got = procfs
            .open_follow(ProcfsBase::ProcSelf, "cwd/", raw_tmpfile)
            .map(|f| format!("{f:?}"))
            .map_err(|e| e.kind());
        assert_eq!(
            got,
            Err(ErrorKind::InvalidArgument),
            "open_follow(ProcSelf, \"cwd/\", __O_TMPFILE|O_RDWR) must be refused, not create an unnamed file"
        );
    }
}
