// Demonstration for finding D15 (C01): the kernel follows at most MAXSYMLINKS = 40 links in one lookup; the emulated
// resolver followed up to 127, so a non-looping chain of 41..127 symlinks resolved with one backend and gave ELOOP with
// the other (and with the kernel's own in-root resolution).  Found by a seeded-change sub-agent on the unmodified tree.
#[cfg(test)]
mod verif_replay_d15 {
    use crate::{resolvers::ResolverBackend, Root};

    use std::{
        os::unix::{
            fs::symlink,
        },
    };

    fn outcome(root: &Root, path: impl AsRef<std::path::Path>) -> Result<(), Option<i32>> {
        root.resolve(path).map(|_| ()).map_err(|err| match err.kind() {
            crate::error::ErrorKind::OsError(errno) => errno,
            _ => None,
        })
    }

    /// (1) A chain of 41..=127 (non-looping) symlinks: the kernel gives ELOOP
    /// (MAXSYMLINKS = 40), the emulated resolver follows up to 127 links.
    #[test]
    fn verif_replay_d15_chain_of_41_symlinks() {
        if !ResolverBackend::KernelOpenat2.supported() {
            return;
        }
        let dir = tempfile::tempdir().unwrap();
        std::fs::write(dir.path().join("l0"), b"x").unwrap();
        for i in 1..=60 {
            symlink(format!("l{}", i - 1), dir.path().join(format!("l{i}"))).unwrap();
        }
        let mut kernel = Root::open(dir.path()).unwrap();
        kernel.set_resolver_backend(ResolverBackend::KernelOpenat2);
        let mut opath = Root::open(dir.path()).unwrap();
        opath.set_resolver_backend(ResolverBackend::EmulatedOpath);
        for n in [40, 41, 60] {
            let (k, o) = (outcome(&kernel, format!("l{n}")), outcome(&opath, format!("l{n}")));
            eprintln!("chain of {n} links: openat2={k:?} opath={o:?}");
            assert_eq!(k, o, "backends disagree for a chain of {n} symlinks");
        }
    }
}
