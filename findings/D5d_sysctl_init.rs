// Demonstration for known finding D5d (C10): the first symlink traversal of the emulated resolver
// panics when fs.protected_symlinks cannot be read (here: /proc mounted with subset=pid and an
// unprivileged caller, so there is no /proc/sys at all).  Run by tools/replay_subsetpid.sh.
#[cfg(test)]
mod verif_replay_d5d {
    use crate::{resolvers::ResolverBackend, Root};
    use std::{fs, os::unix::fs::symlink};

    #[test]
    fn verif_replay_d5d_sysctl_unreadable() {
        let tmp = tempfile::tempdir().unwrap();
        fs::create_dir(tmp.path().join("dir")).unwrap();
        symlink("dir", tmp.path().join("link")).unwrap();
        let root = Root::open(tmp.path()).unwrap().with_resolver_backend(ResolverBackend::EmulatedOpath);
        let r = std::panic::catch_unwind(std::panic::AssertUnwindSafe(|| root.resolve("link").map(|_| ()).map_err(|e| e.kind())));
        eprintln!("resolve through a symlink without /proc/sys = {r:?}");
        assert!(r.is_ok(), "resolve PANICKED instead of returning an error (PROTECTED_SYMLINKS_SYSCTL initialiser expect)");
    }
}
