// Demonstration for finding D17 (C07): a magic-link whose body does not look absolute (ns/net -> "net:[...]",
// fd/<pipe> -> "pipe:[...]") used as a path component.  The kernel (RESOLVE_NO_MAGICLINKS) refuses with ELOOP; the
// emulated resolver cannot tell it from an ordinary symlink, walks the body and reports ENOENT.
#[cfg(test)]
mod verif_replay_d17 {
    use crate::{error::ErrorKind, flags::{OpenFlags, ResolverFlags}, resolvers::procfs::ProcfsResolver};
    use std::fs::File;

    fn outcome(r: ProcfsResolver, root: &File, path: &str) -> Result<(), ErrorKind> {
        r.resolve(root, path, OpenFlags::O_RDONLY | OpenFlags::O_NOFOLLOW, ResolverFlags::empty()).map(|_| ()).map_err(|e| e.kind())
    }

    #[test]
    fn verif_replay_d17_magiclink_component() {
        if !*crate::syscalls::OPENAT2_IS_SUPPORTED { return; }
        let root = File::open("/proc/self").unwrap();
        let mut bad = vec![];
        for p in ["ns/net/x", "ns/net/", "ns/net/.", "ns/mnt/x"] {
            let k = outcome(ProcfsResolver::Openat2, &root, p);
            let e = outcome(ProcfsResolver::RestrictedOpath, &root, p);
            eprintln!("{p:>10}: openat2={k:?} emulated={e:?}");
            if k != e || e != Err(ErrorKind::OsError(Some(libc::ELOOP))) { bad.push(p); }
        }
        assert!(bad.is_empty(), "magic-link used as a component: expected ELOOP from both resolvers, differing for {bad:?}");
    }
}
