// Demonstration for finding D1 (C03, C13): Root::remove_all("..") / remove_all("a/.")
// Appended to a scratch copy of the crate as a #[cfg(test)] module by tools/replay_real.sh.
#[cfg(test)]
mod verif_replay_d1 {
    use crate::Root;
    use std::fs;

    #[test]
    fn verif_replay_d1_dotdot() {
        let tmp = tempfile::tempdir().unwrap();
        let base = tmp.path();
        fs::create_dir_all(base.join("root/a/b")).unwrap();
        fs::create_dir_all(base.join("sibling/x")).unwrap();
        fs::write(base.join("outside.txt"), b"precious").unwrap();
        fs::write(base.join("sibling/x/file"), b"precious").unwrap();
        let root = Root::open(base.join("root")).unwrap();
        let res = root.remove_all("..");
        eprintln!("remove_all(\"..\") = {:?}", res.as_ref().map_err(|e| e.kind()));
        assert!(base.join("outside.txt").exists(), "remove_all(\"..\") deleted a file OUTSIDE the root");
        assert!(base.join("sibling/x/file").exists(), "remove_all(\"..\") deleted a sibling of the root");
        assert!(base.join("root/a/b").exists(), "remove_all(\"..\") emptied the root itself");
        assert!(res.is_err(), "remove_all(\"..\") must be refused");
    }

    #[test]
    fn verif_replay_d1_dot() {
        let tmp = tempfile::tempdir().unwrap();
        let base = tmp.path();
        fs::create_dir_all(base.join("root/a/b")).unwrap();
        fs::write(base.join("root/a/keep"), b"precious").unwrap();
        let root = Root::open(base.join("root")).unwrap();
        let res = root.remove_all("a/.");
        eprintln!("remove_all(\"a/.\") = {:?}", res.as_ref().map_err(|e| e.kind()));
        assert!(res.is_err(), "remove_all(\"a/.\") must be refused");
        assert!(base.join("root/a/keep").exists(), "remove_all(\"a/.\") emptied the directory before failing");
    }
}
