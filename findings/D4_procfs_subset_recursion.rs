// Demonstration for finding D4 (C08): on a /proc mounted with subset=pid, seen by a caller that
// cannot create a private procfs (unprivileged), a lookup of a missing name must report ENOENT
// after a bounded number of /proc handles.  Run by tools/replay_d4.sh inside
//   unshare -mpf --mount-proc sh -c 'mount -t proc -o subset=pid proc /proc; setpriv --reuid=65534 ...'
#[cfg(test)]
mod verif_replay_d4 {
    use crate::{error::ErrorKind, flags::OpenFlags, procfs::{ProcfsBase, ProcfsHandle}};

    #[test]
    fn verif_replay_d4_missing_name() {
        let h = ProcfsHandle::new().expect("some /proc handle");
        let r = h.open(ProcfsBase::ProcRoot, "verif-nonexistent", OpenFlags::O_RDONLY).map(|_| ()).map_err(|e| e.kind());
        let nfds = std::fs::read_dir("/proc/self/fd").map(|d| d.count()).unwrap_or(0);
        eprintln!("open(ProcRoot, missing) = {r:?}; open descriptors afterwards: {nfds}");
        assert_eq!(r, Err(ErrorKind::OsError(Some(libc::ENOENT))), "a missing name must be reported as ENOENT");
    }
}
