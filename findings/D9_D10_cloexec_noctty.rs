// Demonstration for findings D9 and D10 (C05): every descriptor libpathrs opens must be close-on-exec
// and must never become the controlling terminal.
#[cfg(test)]
mod verif_replay_d9d10 {
    #![allow(unused_imports)]
    use crate::{flags::OpenFlags, procfs::ProcfsHandle, resolvers::ResolverBackend, Root};
    use rustix::mount::OpenTreeFlags;
    use std::{ffi::CStr, os::unix::io::{AsFd, AsRawFd}};

    #[test]
    fn verif_replay_d10_open_tree_cloexec() {
        // needs CAP_SYS_ADMIN (we are root); new_open_tree is the fallback constructor of ProcfsHandle::new()
        fn open_fds() -> std::collections::BTreeSet<i32> {
            std::fs::read_dir("/proc/self/fd").unwrap().filter_map(|e| e.ok()?.file_name().to_str()?.parse().ok()).collect()
        }
        let before = open_fds();
        let h = match ProcfsHandle::new_open_tree(OpenTreeFlags::empty()) { Ok(h) => h, Err(e) => { eprintln!("open_tree unavailable: {e:?}"); return; } };
        let after = open_fds();
        let mut checked = 0;
        for fd in after.iter().filter(|fd| **fd >= 3) {
            let fdflags = unsafe { libc::fcntl(*fd, libc::F_GETFD) };
            if fdflags < 0 { continue; } // the read_dir descriptor itself
            let target = std::fs::read_link(format!("/proc/self/fd/{fd}")).unwrap_or_default();
            if before.contains(fd) && target != std::path::Path::new("/") { continue; }
            eprintln!("descriptor {fd} -> {target:?}: F_GETFD = {fdflags:#x}");
            checked += 1;
            assert!(fdflags & libc::FD_CLOEXEC != 0, "the open_tree(2) procfs handle (fd {fd}) is NOT close-on-exec");
        }
        assert!(checked >= 1, "did not find the new descriptor");
        drop(h);
    }

    #[test]
    fn verif_replay_d9_openat2_noctty() {
        if !ResolverBackend::KernelOpenat2.supported() { return; }
        unsafe {
            let master = libc::posix_openpt(libc::O_RDWR | libc::O_NOCTTY);
            assert!(master >= 0);
            assert_eq!(libc::grantpt(master), 0);
            assert_eq!(libc::unlockpt(master), 0);
            let name = CStr::from_ptr(libc::ptsname(master)).to_str().unwrap().to_string();
            let leaf = name.rsplit('/').next().unwrap().to_string();
            let pid = libc::fork();
            if pid == 0 {
                // child: a session leader without a controlling terminal
                libc::setsid();
                let code = (|| {
                    let root = Root::open("/dev/pts").ok()?.with_resolver_backend(ResolverBackend::KernelOpenat2);
                    let _tty = root.open_subpath(&leaf, OpenFlags::O_RDWR).ok()?;
                    // do we have a controlling terminal now?
                    let fd = libc::open(b"/dev/tty\0".as_ptr() as *const libc::c_char, libc::O_RDWR);
                    Some(if fd >= 0 { 1 } else { 0 })
                })().unwrap_or(2);
                libc::_exit(code);
            }
            let mut status = 0;
            libc::waitpid(pid, &mut status, 0);
            let code = libc::WEXITSTATUS(status);
            eprintln!("child exit code {code} (0 = no controlling terminal acquired, 1 = the pty became the controlling terminal)");
            assert_ne!(code, 1, "open_subpath(O_RDWR) of a terminal made it the CONTROLLING TERMINAL of the caller (no O_NOCTTY on the openat2 path)");
            assert_eq!(code, 0);
        }
    }
}
