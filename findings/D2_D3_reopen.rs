// Demonstration for findings D2 and D3 (C09): reopen of a handle whose descriptor number is 0,
// and reopen with creation flags.
#[cfg(test)]
mod verif_replay_d2d3 {
    use crate::{flags::OpenFlags, HandleRef, Root};
    use std::{fs, os::unix::io::{AsRawFd, BorrowedFd}};

    #[test]
    fn verif_replay_d3_reopen_creation_flags() {
        let tmp = tempfile::tempdir().unwrap();
        fs::write(tmp.path().join("file"), b"x").unwrap();
        fs::create_dir(tmp.path().join("dir")).unwrap();
        let root = Root::open(tmp.path()).unwrap();
        let file = root.resolve("file").unwrap();
        let dir = root.resolve("dir").unwrap();
        let r1 = file.reopen(OpenFlags::O_CREAT | OpenFlags::O_RDWR).map(|_| ()).map_err(|e| e.kind());
        let r2 = file.reopen(OpenFlags::O_CREAT | OpenFlags::O_EXCL | OpenFlags::O_RDWR).map(|_| ()).map_err(|e| e.kind());
        let r3 = dir.reopen(OpenFlags::O_TMPFILE | OpenFlags::O_RDWR).map(|_| ()).map_err(|e| e.kind());
        eprintln!("reopen(O_CREAT|O_RDWR)={r1:?} reopen(O_CREAT|O_EXCL|O_RDWR)={r2:?} reopen(dir,O_TMPFILE|O_RDWR)={r3:?}");
        assert!(r1.is_err(), "reopen with O_CREAT must be refused");
        assert!(r2.is_err(), "reopen with O_CREAT|O_EXCL must be refused");
        assert!(r3.is_err(), "reopen with O_TMPFILE must be refused (it created an anonymous file)");
    }

    #[test]
    fn verif_replay_d2_reopen_fd0() {
        let tmp = tempfile::tempdir().unwrap();
        fs::write(tmp.path().join("file"), b"x").unwrap();
        let f = fs::File::open(tmp.path().join("file")).unwrap();
        // make descriptor 0 refer to the file (as in a daemon that closed stdin)
        let saved = unsafe { libc::dup(0) };
        assert!(unsafe { libc::dup2(f.as_raw_fd(), 0) } == 0);
        let h = HandleRef::from_fd(unsafe { BorrowedFd::borrow_raw(0) });
        let r = h.reopen(OpenFlags::O_RDONLY).map(|_| ()).map_err(|e| e.kind());
        if saved >= 0 { unsafe { libc::dup2(saved, 0); libc::close(saved); } }
        eprintln!("reopen of a handle on descriptor 0 = {r:?}");
        assert!(r.is_ok(), "reopen must not depend on the descriptor number (0 is a valid descriptor)");
    }
}
