// Demonstrations for findings D19 and D20 (C04, C10): the one-shot open of the openat2 backend.
// D20: open_subpath("d", O_TMPFILE|O_RDWR) created an anonymous file with the kernel backend and was refused
//      (InvalidArgument) by the emulated one -- Resolver::open refused only O_CREAT|O_EXCL.
// D19: openat2::open called openat2(2) once, so a rename anywhere on the system made a lookup with '..' fail with a raw
//      EAGAIN, while openat2::resolve retries 16 times (and the emulated backend never fails that way).
// Side findings of a seeded-change sub-agent on the unmodified tree; module renamed.
#[cfg(test)]
mod verif_replay_d19_d20 {
    use crate::{error::ErrorKind, flags::OpenFlags, resolvers::ResolverBackend, Root};

    use std::os::unix::io::AsRawFd;

    fn roots(path: &str) -> (Root, Root) {
        (
            Root::open(path)
                .expect("open root")
                .with_resolver_backend(ResolverBackend::KernelOpenat2),
            Root::open(path)
                .expect("open root")
                .with_resolver_backend(ResolverBackend::EmulatedOpath),
        )
    }

    /// A procfs magic-link whose readlink() text is not an absolute path
    /// ("pipe:[1234]", "socket:[1234]", "anon_inode:[eventfd]") is not
    /// recognised as a magic-link by the emulated resolver, which then walks the
    /// text as a relative path and reports ENOENT where openat2 reports ELOOP.
    #[test]
    fn verif_replay_d20_oneshot_open_tmpfile() {
        if !ResolverBackend::KernelOpenat2.supported() {
            return;
        }
        let dir = tempfile::TempDir::new().expect("tempdir");
        std::fs::create_dir(dir.path().join("d")).expect("mkdir");
        let (kernel, emulated) = roots(dir.path().to_str().unwrap());

        let oflags = OpenFlags::O_TMPFILE | OpenFlags::O_RDWR;
        let got_kernel = kernel.open_subpath("d", oflags).map(|_| ()).map_err(|e| e.kind());
        let got_emulated = emulated.open_subpath("d", oflags).map(|_| ()).map_err(|e| e.kind());
        assert_eq!(got_kernel, got_emulated, "open_subpath(\"d\", O_TMPFILE|O_RDWR) differs");
    }

    /// The one-shot openat2 open does not retry on EAGAIN (unlike
    /// openat2::resolve, which retries 16 times), so with a rename happening
    /// anywhere on the system during a lookup containing ".." the kernel
    /// backend fails with EAGAIN where the emulated backend succeeds.
    #[test]
    fn verif_replay_d19_oneshot_open_eagain_under_renames() {
        use std::sync::{atomic::{AtomicBool, Ordering}, Arc};
        if !ResolverBackend::KernelOpenat2.supported() {
            return;
        }
        let dir = tempfile::TempDir::new().expect("tempdir");
        std::fs::create_dir_all(dir.path().join("a/b")).expect("mkdir");
        let other = tempfile::TempDir::new().expect("tempdir");
        std::fs::write(other.path().join("x"), b"").expect("touch");

        let stop = Arc::new(AtomicBool::new(false));
        let renamer = {
            let stop = Arc::clone(&stop);
            let (x, y) = (other.path().join("x"), other.path().join("y"));
            std::thread::spawn(move || {
                while !stop.load(Ordering::Relaxed) {
                    let _ = std::fs::rename(&x, &y);
                    let _ = std::fs::rename(&y, &x);
                }
            })
        };

        let (kernel, emulated) = roots(dir.path().to_str().unwrap());
        let path = "a/b/../b/../b/../b/../b/../b/../b/../b/../b/../b/..";
        let mut kernel_errs = std::collections::BTreeMap::new();
        let mut emulated_errs = std::collections::BTreeMap::new();
        for _ in 0..20000 {
            if let Err(e) = kernel.open_subpath(path, OpenFlags::O_RDONLY) {
                *kernel_errs.entry(format!("{:?}", e.kind())).or_insert(0usize) += 1;
            }
            if let Err(e) = emulated.open_subpath(path, OpenFlags::O_RDONLY) {
                *emulated_errs.entry(format!("{:?}", e.kind())).or_insert(0usize) += 1;
            }
        }
        stop.store(true, Ordering::Relaxed);
        renamer.join().unwrap();
        eprintln!("errors seen on a static tree: kernel={kernel_errs:?} emulated={emulated_errs:?}");
        // openat2::resolve retries EAGAIN 16 times and then reports a SafetyViolation; the one-shot open must do the same
        // instead of surfacing a raw EAGAIN for (on this workload) almost every second call.
        assert!(
            !kernel_errs.contains_key("OsError(Some(11))"),
            "one-shot open surfaced raw EAGAIN errors: {kernel_errs:?}"
        );
        let failed: usize = kernel_errs.values().sum();
        assert!(failed < 2000, "more than 10% of the one-shot opens failed under unrelated renames: {kernel_errs:?}");
        assert!(emulated_errs.is_empty(), "emulated backend failed on a static tree: {emulated_errs:?}");
    }
}
