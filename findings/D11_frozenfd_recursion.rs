// Demonstration for finding D11 (C10): when /proc/thread-self cannot be stat-ed (no /proc, or /proc is not
// a procfs), building the error value of ANY failing syscall wrapper recurses without bound:
//   Error::Fstatat { dirfd: fd.into() } -> FrozenFd::from -> as_unsafe_path_unchecked ->
//   ProcfsBase::into_path(None) -> syscalls::fstatat("/proc/thread-self") fails -> Error::Fstatat { .. } -> ...
// The child re-executes this test binary in a private mount namespace with a tmpfs over /proc.
#[cfg(test)]
mod verif_replay_d11 {
    use crate::Root;

    #[test]
    fn verif_replay_d11_child() {
        if std::env::var("VERIF_D11_CHILD").is_err() { return; }
        // any failing wrapper will do: open a root that does not exist
        let r = Root::open("/verif-d11-does-not-exist").map(|_| ()).map_err(|e| e.kind());
        println!("D11-CHILD-RESULT {r:?}");
    }

    #[test]
    fn verif_replay_d11_error_path_without_proc() {
        let exe = std::env::current_exe().unwrap();
        let script = format!("mount -t tmpfs tmpfs /proc && VERIF_D11_CHILD=1 {} verif_replay_d11_child --nocapture --test-threads 1", exe.display());
        let out = std::process::Command::new("unshare").args(["-m", "sh", "-c", &script]).output().unwrap();
        let so = String::from_utf8_lossy(&out.stdout).to_string();
        let se = String::from_utf8_lossy(&out.stderr).to_string();
        eprintln!("child status: {:?}\n{}\n{}", out.status, so.lines().filter(|l| l.contains("D11")).collect::<Vec<_>>().join("\n"), se.lines().filter(|l| l.contains("overflow") || l.contains("panicked")).collect::<Vec<_>>().join("\n"));
        assert!(out.status.success(), "a failing system call without a usable /proc made the library crash instead of returning an error");
        assert!(so.contains("D11-CHILD-RESULT Err(OsError(Some(2)))"), "expected a clean ENOENT");
    }
}
