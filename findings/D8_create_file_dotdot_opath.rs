// Demonstration for finding D8 (C03, C14): Root::create_file("..", O_PATH, ..).  With O_PATH the kernel
// ignores O_CREAT, so openat(rootfd, "..", O_PATH|O_CREAT|O_NOFOLLOW) simply opens the parent of the
// root: the caller gets a descriptor of a directory outside the root.
#[cfg(test)]
mod verif_replay_d8 {
    use crate::{flags::OpenFlags, Root};
    use std::{fs, os::unix::fs::{MetadataExt, PermissionsExt}};

    #[test]
    fn verif_replay_d8_create_file_dotdot() {
        let tmp = tempfile::tempdir().unwrap();
        let base = tmp.path();
        fs::create_dir_all(base.join("root/a")).unwrap();
        let root = Root::open(base.join("root")).unwrap();
        let outside_ino = fs::metadata(base).unwrap().ino();
        for (path, flags) in [("..", OpenFlags::O_PATH), ("a/../..", OpenFlags::O_PATH), ("..", OpenFlags::O_PATH | OpenFlags::O_DIRECTORY), (".", OpenFlags::O_PATH)] {
            let r = root.create_file(path, flags, &fs::Permissions::from_mode(0o644));
            match &r {
                Ok(f) => {
                    let ino = f.metadata().unwrap().ino();
                    eprintln!("create_file({path:?}, {flags:?}) = Ok(fd) with inode {ino} (parent of the root has inode {outside_ino})");
                    assert_ne!(ino, outside_ino, "create_file({path:?}) returned a descriptor of the directory that CONTAINS the root");
                }
                Err(e) => eprintln!("create_file({path:?}, {flags:?}) = Err({:?})", e.kind()),
            }
            assert!(r.is_err(), "create_file on a '.'/'..' final component must be refused");
        }
    }
}
