// Demonstration for finding D16 (C06): open_follow() of an ordinary (non-magic) procfs symlink.  The final component is
// opened with a plain following openat(2); the kernel then walks the symlink's body with no mount check, so an
// over-mount on its target (/proc/<pid>/mounts behind /proc/mounts) is handed to the caller.  Needs root (private
// mount namespace).  Side finding of a seeded-change sub-agent on the unmodified tree; module renamed.
#[cfg(test)]
mod verif_replay_d16 {
    use crate::{
        flags::OpenFlags,
        procfs::{ProcfsBase, ProcfsHandle},
        resolvers::procfs::ProcfsResolver,
        syscalls,
    };
    use rustix::{mount as rmount, thread as rthread};
    use std::io::Read;

    #[test]
    fn verif_replay_d16_open_follow_overmounted_symlink_target() {
        std::thread::spawn(move || {
            rthread::unshare(rthread::UnshareFlags::FS | rthread::UnshareFlags::NEWNS)
                .expect("unshare mount namespace (are we root?)");
            rmount::mount_change(
                "/",
                rmount::MountPropagationFlags::SLAVE | rmount::MountPropagationFlags::REC,
            )
            .expect("make / rslave");

            // /proc/mounts is the procfs symlink "self/mounts". Over-mount its
            // target /proc/<pid>/mounts with a foreign file.
            let tmp = tempfile::TempDir::new().expect("tempdir");
            let fake = tmp.path().join("fake-mounts");
            std::fs::write(&fake, "FAKE MOUNTS\n").expect("write fake file");
            rmount::mount_bind(&fake, "/proc/self/mounts").expect("bind-mount over /proc/self/mounts");

            let mut resolvers = vec![ProcfsResolver::RestrictedOpath];
            if *syscalls::OPENAT2_IS_SUPPORTED {
                resolvers.push(ProcfsResolver::Openat2);
            }
            for resolver in resolvers {
                let mut procfs = ProcfsHandle::new_unsafe_open().expect("open /proc handle");
                procfs.resolver = resolver;
                let name = format!("{:?}", procfs.resolver);
                match procfs.open_follow(ProcfsBase::ProcRoot, "mounts", OpenFlags::O_RDONLY) {
                    Err(err) => eprintln!("[{name}] open_follow(ProcRoot, \"mounts\") failed (fine): {err:?}"),
                    Ok(mut f) => {
                        let mut s = String::new();
                        f.read_to_string(&mut s).expect("read");
                        assert_ne!(
                            s, "FAKE MOUNTS\n",
                            "[{name}] open_follow(ProcRoot, \"mounts\") returned the over-mounted file"
                        );
                    }
                }
            }
        })
        .join()
        .expect("demo thread must not panic");
    }
}
