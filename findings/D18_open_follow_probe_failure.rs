// Demonstration for finding D18 (C09, C10): open_follow() took *any* failure of its readlink probe for "not a symlink" and
// fell back to an O_NOFOLLOW open.  For a handle whose absolute path is longer than PATH_MAX the kernel's readlink of
// thread-self/fd/N fails with ENAMETOOLONG: reopen(O_PATH) then returned a descriptor of the procfs magic-link itself
// (a different object) and reopen(O_RDONLY) failed with ELOOP.  Same for one transient fault inside the probe.
// Side finding of two seeded-change sub-agents on the unmodified tree; module renamed.
#[cfg(test)]
mod verif_replay_d18 {
    use crate::{flags::OpenFlags, Root};
    use rustix::fs::{self as rfs, Mode, OFlags};
    use std::os::unix::{fs::MetadataExt, io::OwnedFd};

    #[test]
    fn c09_finding_longpath() {
        let tmp = tempfile::TempDir::new().unwrap();
        let name = "d".repeat(255);
        let odir = OFlags::DIRECTORY | OFlags::CLOEXEC;

        // Build tmp/ddd.../ddd.../... (20 levels, >5000 bytes) with *at() calls.
        let top: OwnedFd = rfs::open(tmp.path(), odir, Mode::empty()).unwrap();
        let mut dir = top.try_clone().unwrap();
        let mut mid = None;
        for depth in 0..20 {
            rfs::mkdirat(&dir, &name, Mode::from_raw_mode(0o755)).unwrap();
            dir = rfs::openat(&dir, &name, odir, Mode::empty()).unwrap();
            if depth == 9 {
                mid = Some(dir.try_clone().unwrap());
            }
        }
        let file = rfs::openat(
            &dir,
            "file",
            OFlags::CREATE | OFlags::WRONLY | OFlags::CLOEXEC,
            Mode::from_raw_mode(0o644),
        )
        .unwrap();
        let want = std::fs::File::from(file).metadata().unwrap();

        // The root is ten levels down; the path inside the root is ~2.5KiB
        // (fine for every resolver), but root path + subpath > PATH_MAX.
        let root = Root::from_fd(mid.unwrap());
        let subpath = format!("{}/file", vec![name.as_str(); 10].join("/"));
        let handle = root.resolve(&subpath).expect("resolve long path inside root");

        let mut bad = vec![];
        for flags in [OpenFlags::O_PATH, OpenFlags::O_RDONLY] {
            match handle.reopen(flags) {
                Ok(f) => {
                    let got = f.metadata().unwrap();
                    eprintln!(
                        "reopen({flags:?}) -> dev={} ino={} mode={:o}; handle inode is dev={} ino={} mode={:o}",
                        got.dev(), got.ino(), got.mode(), want.dev(), want.ino(), want.mode()
                    );
                    if (got.dev(), got.ino()) != (want.dev(), want.ino()) {
                        bad.push(format!("reopen({flags:?}) returned a different inode (mode {:o})", got.mode()));
                    }
                }
                Err(e) => {
                    eprintln!("reopen({flags:?}) -> error {e} (kind {:?})", e.kind());
                    bad.push(format!("reopen({flags:?}) of a regular file failed: {e}"));
                }
            }
        }

        // Clean up the over-long tree (remove_dir_all cannot handle it by path).
        drop(handle);
        assert!(bad.is_empty(), "{bad:#?}");
    }
}
