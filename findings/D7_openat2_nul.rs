// Demonstration for finding D7 (C04): a path with an interior NUL byte.  The emulated backend
// refuses it (EINVAL from openat(2) via rustix); the openat2 backend silently truncated the
// path at the NUL (ToCString::to_c_string) and resolved the prefix.
#[cfg(test)]
mod verif_replay_d7 {
    use crate::{resolvers::ResolverBackend, Root};
    use std::{ffi::OsStr, fs, os::unix::ffi::OsStrExt};

    #[test]
    fn verif_replay_d7_nul() {
        let tmp = tempfile::tempdir().unwrap();
        fs::create_dir_all(tmp.path().join("a")).unwrap();
        let path = OsStr::from_bytes(b"a\0b");
        let mut results = vec![];
        for backend in [ResolverBackend::KernelOpenat2, ResolverBackend::EmulatedOpath] {
            if !backend.supported() { continue; }
            let root = Root::open(tmp.path()).unwrap().with_resolver_backend(backend);
            let r = root.resolve(path).map(|_| ()).map_err(|e| e.kind());
            eprintln!("{backend:?}: resolve(\"a\\0b\") = {r:?}");
            results.push(r);
        }
        for r in &results {
            assert!(r.is_err(), "a path with an interior NUL must not resolve to its prefix");
        }
        if results.len() == 2 { assert_eq!(results[0].is_ok(), results[1].is_ok()); }
    }
}
