// Demonstration for finding D12 (C15, C04): fs.protected_symlinks and the position of the link.
// The kernel applies the rule (fs/namei.c may_follow_link) only to the trailing symlink of a walk
// ("dl", "dl/"); a link in the middle of the path ("dl/f", "dl/.") is followed without it.  The
// emulated resolver applied the rule to every link, so it refused lookups the kernel (and therefore the
// openat2 backend) allows.  Needs root: turns the sysctl on for the duration of the test.
#[cfg(test)]
mod verif_replay_d12 {
    use crate::{error::ErrorKind, flags::ResolverFlags, resolvers::opath};
    use std::{ffi::CString, fs::{self, File}, os::unix::{ffi::OsStrExt, fs::{symlink, PermissionsExt}}, path::Path};

    const SYSCTL: &str = "/proc/sys/fs/protected_symlinks";
    struct SysctlGuard(String);
    impl Drop for SysctlGuard { fn drop(&mut self) { let _ = fs::write(SYSCTL, &self.0); } }

    fn kernel(path: &Path) -> Option<i32> { fs::metadata(path).err().map(|e| e.raw_os_error().unwrap()) }
    fn emulated(root: &File, path: &str) -> Option<i32> {
        match opath::resolve(root, path, ResolverFlags::empty(), false) {
            Ok(_) => None,
            Err(err) => match err.kind() { ErrorKind::OsError(Some(e)) => Some(e), k => panic!("unexpected error kind {k:?}: {err}") },
        }
    }

    #[test]
    fn verif_replay_d12_link_position() {
        assert_eq!(unsafe { libc::geteuid() }, 0, "needs root");
        let old = fs::read_to_string(SYSCTL).unwrap();
        fs::write(SYSCTL, "1\n").expect("enable fs.protected_symlinks");
        let _guard = SysctlGuard(old);

        let tmp = tempfile::TempDir::new().unwrap();
        fs::set_permissions(tmp.path(), fs::Permissions::from_mode(0o1777)).unwrap();
        fs::create_dir(tmp.path().join("sub")).unwrap();
        fs::write(tmp.path().join("sub/f"), b"").unwrap();
        symlink("sub", tmp.path().join("dl")).unwrap();
        // a link owned by neither the caller (root) nor the directory's owner (root)
        let c = CString::new(tmp.path().join("dl").as_os_str().as_bytes()).unwrap();
        assert_eq!(unsafe { libc::lchown(c.as_ptr(), 1000, 1000) }, 0);
        // a chain: "outer" -> "dl/f" makes "dl" an intermediate link of a nested body
        symlink("dl/f", tmp.path().join("outer")).unwrap();

        let root = File::open(tmp.path()).unwrap();
        let mut bad = vec![];
        for p in ["dl", "dl/", "dl/f", "dl/.", "dl/sub/../f", "outer", "sub/../dl", "sub/../dl/f"] {
            let k = kernel(&tmp.path().join(p));
            let e = emulated(&root, p);
            eprintln!("{p:>14}: kernel={k:?} emulated={e:?}");
            if k != e { bad.push(p); }
        }
        assert!(bad.is_empty(), "emulated resolver and kernel disagree under fs.protected_symlinks=1 for {bad:?}");
    }
}
