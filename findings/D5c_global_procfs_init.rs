// Demonstration for known finding D5c (C10): the first use of GLOBAL_PROCFS_HANDLE panics when all
// three procfs constructors fail.  Here the descriptor table is exhausted (EMFILE) before the
// first reopen().
#[cfg(test)]
mod verif_replay_d5c {
    use crate::{flags::OpenFlags, resolvers::ResolverBackend, Root};
    use std::fs;

    #[test]
    fn verif_replay_d5c_emfile_at_first_use() {
        let tmp = tempfile::tempdir().unwrap();
        fs::write(tmp.path().join("file"), b"x").unwrap();
        if !ResolverBackend::KernelOpenat2.supported() { return; }
        let root = Root::open(tmp.path()).unwrap().with_resolver_backend(ResolverBackend::KernelOpenat2);
        let h = root.resolve("file").unwrap();
        unsafe { let lim = libc::rlimit { rlim_cur: 64, rlim_max: 64 }; libc::setrlimit(libc::RLIMIT_NOFILE, &lim); }
        let mut hog = vec![];
        while let Ok(f) = fs::File::open("/dev/null") { hog.push(f); }
        let r = std::panic::catch_unwind(std::panic::AssertUnwindSafe(|| h.reopen(OpenFlags::O_RDONLY).map(|_| ()).map_err(|e| e.kind())));
        drop(hog);
        eprintln!("reopen with an exhausted descriptor table = {r:?}");
        assert!(r.is_ok(), "reopen PANICKED instead of returning an error (GLOBAL_PROCFS_HANDLE initialiser expect)");
    }
}
