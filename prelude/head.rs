#![allow(unused_imports, unused_variables, dead_code, unused_mut, unused_parens, unused_braces, non_camel_case_types, non_upper_case_globals, unreachable_code, unused_assignments)]
#![feature(allocator_api)]
use vstd::prelude::*;
use vstd::slice::*;
