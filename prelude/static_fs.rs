// ---- prelude/static_fs.rs: the STATIC-TREE hypothesis (C01/C04 functional equivalence) ---------
// A ghost file system that does not change during the call.  Syscall stubs in this unit are
// deterministic functions of it.  `kres` restates the kernel's in-root walk (fs/namei.c
// link_path_walk + RESOLVE_IN_ROOT as documented in openat2(2)): "" inside a path is ".",
// "." / ".." are looked up like entries, ".." at the root stays at the root, a non-directory in
// the middle is ENOTDIR, a missing entry ENOENT, a trailing link is returned as such when the
// caller asked not to follow it, NO_SYMLINKS or an exhausted budget give ELOOP, an absolute link
// body restarts at the root, a relative one is spliced in front of the rest.
pub type Comp = Seq<u8>;
pub open spec fn DOT() -> Comp { seq![46u8] }
pub open spec fn DOTDOT() -> Comp { seq![46u8, 46u8] }
pub open spec fn EMPTY() -> Comp { Seq::<u8>::empty() }
pub uninterp spec fn fs_lookup(d: int, name: Comp) -> Option<int>;
pub uninterp spec fn fs_is_dir(i: int) -> bool;
pub uninterp spec fn fs_is_symlink(i: int) -> bool;
pub uninterp spec fn fs_target(i: int) -> Seq<u8>;
pub uninterp spec fn fs_depth(i: int) -> int;
pub uninterp spec fn fs_parent(i: int) -> int;
pub uninterp spec fn fs_root() -> int;
pub open spec fn is_abs(p: Seq<u8>) -> bool { p.len() > 0 && p[0] == 47u8 }

pub open spec fn fs_wf() -> bool {
    &&& fs_is_dir(fs_root()) && fs_depth(fs_root()) == 0
    &&& (forall|d: int| #[trigger] fs_is_dir(d) ==> fs_lookup(d, DOT()) == Some(d) && fs_lookup(d, DOTDOT()) == Some(fs_parent(d)) && !fs_is_symlink(d))
    &&& (forall|d: int| #[trigger] fs_is_dir(d) && fs_depth(d) > 0 ==> fs_is_dir(fs_parent(d)) && fs_depth(fs_parent(d)) == fs_depth(d) - 1)
    &&& (forall|d: int| #[trigger] fs_is_dir(d) && fs_depth(d) == 0 ==> d == fs_root())
    &&& (forall|d: int, n: Comp| fs_is_dir(d) && n != DOT() && n != DOTDOT() ==> (#[trigger] fs_lookup(d, n) matches Some(c) ==> (fs_is_dir(c) ==> fs_depth(c) == fs_depth(d) + 1)))
}

pub enum KRes { Done(int), Fail(int) }

pub open spec fn kres(cur: int, comps: Seq<Comp>, n: nat, nf: bool, nosym: bool) -> KRes
    decreases 40 - n, comps.len()
{
    if comps.len() == 0 {
        KRes::Done(cur)
    } else {
        let c0 = comps[0];
        let rest = comps.skip(1);
        let c = if c0 == EMPTY() { DOT() } else { c0 };
        if c == DOTDOT() && cur == fs_root() {
            kres(fs_root(), rest, n, nf, nosym)
        } else if !fs_is_dir(cur) {
            KRes::Fail(libc::ENOTDIR as int)
        } else {
            match fs_lookup(cur, c) {
                None => KRes::Fail(libc::ENOENT as int),
                Some(nx) => {
                    if !fs_is_symlink(nx) {
                        kres(nx, rest, n, nf, nosym)
                    } else if rest.len() == 0 && nf {
                        KRes::Done(nx)
                    } else if nosym {
                        KRes::Fail(libc::ELOOP as int)
                    } else if n >= 40 {       // fs/namei.c: total_link_count++ >= MAXSYMLINKS (40)
                        KRes::Fail(libc::ELOOP as int)
                    } else {
                        let t = fs_target(nx);
                        let comps2 = split(t) + rest;
                        if is_abs(t) { kres(fs_root(), comps2, n + 1, nf, nosym) } else { kres(cur, comps2, n + 1, nf, nosym) }
                    }
                }
            }
        }
    }
}
/// the kernel refuses the empty path at the top level (no AT_EMPTY_PATH for openat2)
pub open spec fn kres_top(path: Seq<u8>, nf: bool, nosym: bool) -> KRes {
    if path.len() == 0 { KRes::Fail(libc::ENOENT as int) } else { kres(fs_root(), split(path), 0, nf, nosym) }
}
pub open spec fn cur_inv(cur: int, stack: Seq<Comp>) -> bool {
    &&& (fs_is_dir(cur) ==> fs_depth(cur) == stack.len())
    &&& (!fs_is_dir(cur) ==> stack.len() > 0)
}
pub open spec fn res_ok(res: Result<PartialLookup<Rc<OwnedFd>>, Error>, goal: KRes) -> bool {
    match res {
        Ok(PartialLookup::Complete(h)) => goal == KRes::Done((ino_of(h.id()) as int)),
        Ok(PartialLookup::Partial { last_error, .. }) => (last_error.errno_spec() matches Some(e) && goal == KRes::Fail(e as int)),
        Err(_) => true,
    }
}
pub proof fn lemma_lits()
    ensures
        DOT() != DOTDOT(), DOT() != EMPTY(), DOTDOT() != EMPTY(),
        DOT().len() == 1, DOTDOT().len() == 2, EMPTY().len() == 0,
{
    assert(DOT()[0] == 46u8);
    assert(DOTDOT().len() == 2);
}
pub proof fn lemma_cv_pop(q: Seq<OsString>)
    requires q.len() > 0
    ensures cv(q.skip(1)) =~= cv(q).skip(1), cv(q)[0] == q[0]@
{}
