// ---- prelude/stat.rs: stat / statfs / statx results (fields as in rustix) -------------------
pub struct Stat { pub st_mode: u32, pub st_uid: u32, pub st_gid: u32, pub st_ino: u64, pub st_dev: u64 }
pub struct StatFs { pub f_type: i64 }
pub struct Statx { pub stx_mask: u32, pub stx_mnt_id: u64 }
#[derive(Clone, Copy)]
pub struct StatxFlags { pub bits: u32 }
impl StatxFlags {
    pub const MNT_ID: StatxFlags = StatxFlags { bits: 0x1000 };
    pub const fn from_bits_retain(b: u32) -> (r: StatxFlags) ensures r.bits == b { StatxFlags { bits: b } }
    pub fn intersects(&self, o: StatxFlags) -> (r: bool) ensures r == (self.bits & o.bits != 0) { self.bits & o.bits != 0 }
}
impl vstd::std_specs::ops::BitOrSpecImpl for StatxFlags {
    open spec fn obeys_bitor_spec() -> bool { true }
    open spec fn bitor_req(self, o: StatxFlags) -> bool { true }
    open spec fn bitor_spec(self, o: StatxFlags) -> StatxFlags { StatxFlags { bits: self.bits | o.bits } }
}
impl core::ops::BitOr for StatxFlags {
    type Output = StatxFlags;
    fn bitor(self, o: StatxFlags) -> (r: StatxFlags) { StatxFlags { bits: self.bits | o.bits } }
}
pub uninterp spec fn statfs_of(s: StatFs, fd: int) -> bool;
pub uninterp spec fn stat_of(s: Stat, fd: int, path: Seq<u8>) -> bool;
pub uninterp spec fn statx_of(s: Statx, fd: int, path: Seq<u8>, mask: u32) -> bool;
