// ---- prelude/c15.rs: the kernel's fs.protected_symlinks rule (oracle: fs/namei.c) -----------
pub uninterp spec fn sysctl_spec() -> u32;
//@include prelude/creds.rs
pub uninterp spec fn stat_fails(fd: int) -> bool;
pub open spec fn kernel_refuses_link(sysctl: u32, fsuid: u32, link_uid: u32, dir_mode: u32, dir_uid: u32) -> bool {
    sysctl != 0
    && link_uid != fsuid
    && (dir_mode & 0o1000u32 != 0)      // S_ISVTX
    && (dir_mode & 0o2u32 != 0)         // S_IWOTH
    && link_uid != dir_uid
}
/// R7: `*PROTECTED_SYMLINKS_SYSCTL` (a Lazy; its initialiser is a separate obligation, C10)
#[verifier::external_body]
pub fn protected_symlinks_sysctl() -> (r: u32) ensures r == sysctl_spec() { unimplemented!() }
/// definition of the ghost token `follow_checked`: the kernel's rule does not refuse (dir, link)
pub proof fn axiom_follow_checked(dir: int, link: int, sysctl: u32, fsuid: u32, link_uid: u32, dir_mode: u32, dir_uid: u32)
    requires !kernel_refuses_link(sysctl, fsuid, link_uid, dir_mode, dir_uid),       // [C15.may_follow_link.token_only_if_rule_allows]
        sysctl == sysctl_spec(), fsuid == fsuid_spec(),
        link_uid == meta_of(link).uid_spec(), dir_mode == meta_of(dir).mode_spec(), dir_uid == meta_of(dir).uid_spec(),   // [C15.may_follow_link.rule_evaluated_on_this_dir_and_link]
    ensures follow_checked(dir, link)
{ admit(); }
