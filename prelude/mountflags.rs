// ---- prelude/mountflags.rs: rustix::mount flag types (bitflags! models; kernel values) -----------
#[derive(Clone, Copy)]
pub struct FsOpenFlags { pub bits: u32 }
impl FsOpenFlags { pub const FSOPEN_CLOEXEC: FsOpenFlags = FsOpenFlags { bits: 1 }; pub fn empty() -> (r: FsOpenFlags) ensures r.bits == 0 { FsOpenFlags { bits: 0 } } }
#[derive(Clone, Copy)]
pub struct FsMountFlags { pub bits: u32 }
impl FsMountFlags { pub const FSMOUNT_CLOEXEC: FsMountFlags = FsMountFlags { bits: 1 }; pub fn empty() -> (r: FsMountFlags) ensures r.bits == 0 { FsMountFlags { bits: 0 } } }
#[derive(Clone, Copy)]
pub struct MountAttrFlags { pub bits: u32 }
impl MountAttrFlags {
    pub const MOUNT_ATTR_NOSUID: MountAttrFlags = MountAttrFlags { bits: 0x2 };
    pub const MOUNT_ATTR_NODEV: MountAttrFlags = MountAttrFlags { bits: 0x4 };
    pub const MOUNT_ATTR_NOEXEC: MountAttrFlags = MountAttrFlags { bits: 0x8 };
}
impl vstd::std_specs::ops::BitOrSpecImpl for MountAttrFlags {
    open spec fn obeys_bitor_spec() -> bool { true }
    open spec fn bitor_req(self, o: MountAttrFlags) -> bool { true }
    open spec fn bitor_spec(self, o: MountAttrFlags) -> MountAttrFlags { MountAttrFlags { bits: self.bits | o.bits } }
}
impl core::ops::BitOr for MountAttrFlags {
    type Output = MountAttrFlags;
    fn bitor(self, o: MountAttrFlags) -> (r: MountAttrFlags) { MountAttrFlags { bits: self.bits | o.bits } }
}
#[derive(Clone, Copy)]
pub struct OpenTreeFlags { pub bits: u32 }
impl OpenTreeFlags {
    pub const OPEN_TREE_CLONE: OpenTreeFlags = OpenTreeFlags { bits: 1 };
    pub const OPEN_TREE_CLOEXEC: OpenTreeFlags = OpenTreeFlags { bits: 0o2000000 };
    pub const AT_RECURSIVE: OpenTreeFlags = OpenTreeFlags { bits: 0x8000 };
    pub fn empty() -> (r: OpenTreeFlags) ensures r.bits == 0 { OpenTreeFlags { bits: 0 } }
}
impl vstd::std_specs::ops::BitOrSpecImpl for OpenTreeFlags {
    open spec fn obeys_bitor_spec() -> bool { true }
    open spec fn bitor_req(self, o: OpenTreeFlags) -> bool { true }
    open spec fn bitor_spec(self, o: OpenTreeFlags) -> OpenTreeFlags { OpenTreeFlags { bits: self.bits | o.bits } }
}
impl core::ops::BitOr for OpenTreeFlags {
    type Output = OpenTreeFlags;
    fn bitor(self, o: OpenTreeFlags) -> (r: OpenTreeFlags) { OpenTreeFlags { bits: self.bits | o.bits } }
}
/// R2: the bound `AsRef<str>`
pub trait AsRefStr { fn as_ref(&self) -> (r: &str); }
impl AsRefStr for &str { fn as_ref(&self) -> (r: &str) { *self } }
impl AsRefStr for String { #[verifier::external_body] fn as_ref(&self) -> (r: &str) { unimplemented!() } }
