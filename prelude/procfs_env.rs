// ---- prelude/procfs_env.rs: environment of procfs.rs / utils/fd.rs ---------------------------
//@include prelude/stat.rs
pub mod rustix_fs {
    pub const PROC_SUPER_MAGIC: i64 = 0x9fa0;
    pub type FsWord = i64;
    pub type Stat = super::Stat;
}
/// A5: f_type identifies the filesystem; the inode number of a procfs root is 1
pub uninterp spec fn stat_fails(fd: int) -> bool;
pub uninterp spec fn fd_path(n: int) -> Seq<u8>;       // "fd/<n>" in decimal
pub uninterp spec fn cwd_path() -> Seq<u8>;           // "cwd"
/// the descriptor was opened through the procfs handle at (base, subpath) (A6 for base=thread-self, fd/<n>)
pub uninterp spec fn opened_via_procfs(fd: int, base: ProcfsBase, subpath: Seq<u8>, follow: bool) -> bool;
impl AsRefPath for String {
    uninterp spec fn pview(&self) -> Seq<u8>;
    #[verifier::external_body]
    fn as_ref(&self) -> (r: &Path) { unimplemented!() }
}
/// R5/R12: `format!("fd/{}", fd)` and `"cwd".to_string()`
#[verifier::external_body]
pub fn fd_subpath_string(fd: i32) -> (r: String) ensures r.pview() == fd_path(fd as int) { unimplemented!() }
#[verifier::external_body]
pub fn cwd_subpath_string() -> (r: String) ensures r.pview() == cwd_path() { unimplemented!() }
pub uninterp spec fn stat_is_symlink(fd: int) -> bool;
pub uninterp spec fn readlink_via_procfs(body: Seq<u8>, base: ProcfsBase, subpath: Seq<u8>) -> bool;
pub uninterp spec fn dangerous_fs(fd: int) -> bool;     // the object lives on procfs or apparmorfs (magic-link filesystems)
/// R6 (fsword_contains): `ARRAY.contains(&x)` on the two-element array of filesystem magics
pub fn fsword_contains(a: &[i64; 2], x: i64) -> (r: bool)
    ensures r == (a@[0] == x || a@[1] == x)
{ a[0] == x || a[1] == x }
