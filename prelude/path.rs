// ---- prelude/path.rs: Path / OsStr / PathBuf / OsString as byte strings (R1, A7) ------
// On Unix these std types are transparent wrappers around [u8] / Vec<u8>; the conversion
// functions below are identity functions on the bytes (assumed, A7).
#[verifier::external_body]
pub struct Path { _p: () }
#[verifier::external_body]
pub struct OsStr { _p: () }
impl Path { pub uninterp spec fn view(&self) -> Seq<u8>; }
impl OsStr { pub uninterp spec fn view(&self) -> Seq<u8>; }

pub trait AsRefOsStr { spec fn oview(&self) -> Seq<u8>; }
impl AsRefOsStr for OsStr { open spec fn oview(&self) -> Seq<u8> { self@ } }
impl AsRefOsStr for Path { open spec fn oview(&self) -> Seq<u8> { self@ } }
impl AsRefOsStr for OsString { open spec fn oview(&self) -> Seq<u8> { self@ } }

impl Path {
    #[verifier::external_body]
    pub fn new<S: AsRefOsStr>(s: &S) -> (r: &Path) ensures r@ == s.oview() { unimplemented!() }
    #[verifier::external_body]
    pub fn as_os_str(&self) -> (r: &OsStr) ensures r@ == self@ { unimplemented!() }
    #[verifier::external_body]
    pub fn to_path_buf(&self) -> (r: PathBuf) ensures r@ == self@ { unimplemented!() }
    #[verifier::external_body]
    pub fn is_absolute(&self) -> (r: bool) ensures r == (self@.len() > 0 && self@[0] == 47u8) { unimplemented!() }
}
/// R1: `Path::new("<literal>")` — the literal's bytes are spelled out
#[verifier::external_body]
pub fn path_lit(b: &'static [u8]) -> (r: &'static Path) ensures r@ == b@ { unimplemented!() }

impl OsStr {
    #[verifier::external_body]
    pub fn as_bytes(&self) -> (r: &[u8]) ensures r@ == self@ { unimplemented!() }
    #[verifier::external_body]
    pub fn from_bytes(b: &[u8]) -> (r: &OsStr) ensures r@ == b@ { unimplemented!() }
    #[verifier::external_body]
    pub fn to_os_string(&self) -> (r: OsString) ensures r@ == self@ { unimplemented!() }
    #[verifier::external_body]
    pub fn is_empty(&self) -> (r: bool) ensures r == (self@.len() == 0) { unimplemented!() }
}
/// `OsStrExt::from_bytes(x)` (trait-qualified call in the repository) — same identity
pub struct OsStrExt;
impl OsStrExt {
    #[verifier::external_body]
    pub fn from_bytes(b: &[u8]) -> (r: &OsStr) ensures r@ == b@ { unimplemented!() }
}

#[verifier::external_body]
pub struct PathBuf { _p: () }
#[verifier::external_body]
pub struct OsString { _p: () }
impl PathBuf { pub uninterp spec fn view(&self) -> Seq<u8>; }
impl OsString { pub uninterp spec fn view(&self) -> Seq<u8>; }
impl OsString {
    #[verifier::external_body]
    pub fn as_bytes(&self) -> (r: &[u8]) ensures r@ == self@ { unimplemented!() }
    #[verifier::external_body]
    pub fn is_empty(&self) -> (r: bool) ensures r == (self@.len() == 0) { unimplemented!() }
    #[verifier::external_body]
    pub fn as_os_str(&self) -> (r: &OsStr) ensures r@ == self@ { unimplemented!() }
}
impl PathBuf {
    #[verifier::external_body]
    pub fn as_path(&self) -> (r: &Path) ensures r@ == self@ { unimplemented!() }
    #[verifier::external_body]
    pub fn as_os_str(&self) -> (r: &OsStr) ensures r@ == self@ { unimplemented!() }
}

/// R2: the bound `AsRef<Path>` of the repository is spelled `AsRefPath` here.
pub trait AsRefPath {
    spec fn pview(&self) -> Seq<u8>;
    fn as_ref(&self) -> (r: &Path) ensures r@ == self.pview();
}
impl AsRefPath for Path {
    open spec fn pview(&self) -> Seq<u8> { self@ }
    fn as_ref(&self) -> (r: &Path) { self }
}
impl AsRefPath for OsStr {
    open spec fn pview(&self) -> Seq<u8> { self@ }
    #[verifier::external_body]
    fn as_ref(&self) -> (r: &Path) { unimplemented!() }
}
impl AsRefPath for PathBuf {
    open spec fn pview(&self) -> Seq<u8> { self@ }
    #[verifier::external_body]
    fn as_ref(&self) -> (r: &Path) { unimplemented!() }
}
impl AsRefPath for OsString {
    open spec fn pview(&self) -> Seq<u8> { self@ }
    #[verifier::external_body]
    fn as_ref(&self) -> (r: &Path) { unimplemented!() }
}
impl<T: AsRefPath + ?Sized> AsRefPath for &T {
    open spec fn pview(&self) -> Seq<u8> { (**self).pview() }
    fn as_ref(&self) -> (r: &Path) { (**self).as_ref() }
}
/// string literals used as paths: only their emptiness is ever needed ("" for readlinkat /
/// fstatat); `str_bytes` is the UTF-8 encoding (uninterpreted), empty iff the string is.
//@broadcast pathax::axiom_str_bytes_empty
pub mod pathax { use super::*;
pub uninterp spec fn str_bytes(s: Seq<char>) -> Seq<u8>;
pub broadcast axiom fn axiom_str_bytes_empty(s: Seq<char>)
    ensures #[trigger] str_bytes(s).len() == 0 <==> s.len() == 0;
}
impl AsRefPath for str {
    open spec fn pview(&self) -> Seq<u8> { pathax::str_bytes(self@) }
    #[verifier::external_body]
    fn as_ref(&self) -> (r: &Path) { unimplemented!() }
}

// ---- further std Path API, without specifications: code that starts to use these type-checks, and
// ---- whatever the contracts need about the results is then simply not provable (a named obligation
// ---- fails) instead of the unit being rejected
#[verifier::external_body]
pub struct StripPrefixError { _p: () }
impl Path {
    #[verifier::external_body]
    pub fn strip_prefix<P: AsRefPath>(&self, base: P) -> (r: Result<&Path, StripPrefixError>) { unimplemented!() }
    #[verifier::external_body]
    pub fn join<P: AsRefPath>(&self, p: P) -> (r: PathBuf) { unimplemented!() }
    #[verifier::external_body]
    pub fn starts_with<P: AsRefPath>(&self, base: P) -> (r: bool) { unimplemented!() }
    #[verifier::external_body]
    pub fn ends_with<P: AsRefPath>(&self, base: P) -> (r: bool) { unimplemented!() }
    #[verifier::external_body]
    pub fn parent(&self) -> (r: Option<&Path>) { unimplemented!() }
    #[verifier::external_body]
    pub fn file_name(&self) -> (r: Option<&OsStr>) { unimplemented!() }
    #[verifier::external_body]
    pub fn is_relative(&self) -> (r: bool) ensures r == !(self@.len() > 0 && self@[0] == 47u8) { unimplemented!() }
}
impl PathBuf {
    #[verifier::external_body]
    pub fn strip_prefix<P: AsRefPath>(&self, base: P) -> (r: Result<&Path, StripPrefixError>) { unimplemented!() }
    #[verifier::external_body]
    pub fn starts_with<P: AsRefPath>(&self, base: P) -> (r: bool) { unimplemented!() }
    #[verifier::external_body]
    pub fn ends_with<P: AsRefPath>(&self, base: P) -> (r: bool) { unimplemented!() }
    #[verifier::external_body]
    pub fn parent(&self) -> (r: Option<&Path>) { unimplemented!() }
    #[verifier::external_body]
    pub fn file_name(&self) -> (r: Option<&OsStr>) { unimplemented!() }
}
impl PartialEq<&Path> for PathBuf { #[verifier::external_body] fn eq(&self, other: &&Path) -> (r: bool) { unimplemented!() } }
impl PartialEq<PathBuf> for &Path { #[verifier::external_body] fn eq(&self, other: &PathBuf) -> (r: bool) { unimplemented!() } }
impl PartialEq<Path> for PathBuf { #[verifier::external_body] fn eq(&self, other: &Path) -> (r: bool) { unimplemented!() } }
impl PartialEq for Path { #[verifier::external_body] fn eq(&self, other: &Path) -> (r: bool) { unimplemented!() } }
impl PartialEq for OsStr { #[verifier::external_body] fn eq(&self, other: &OsStr) -> (r: bool) { unimplemented!() } }
impl PartialEq for OsString { #[verifier::external_body] fn eq(&self, other: &OsString) -> (r: bool) { unimplemented!() } }
impl core::ops::Deref for OsString {
    type Target = OsStr;
    #[verifier::external_body]
    fn deref(&self) -> (r: &OsStr) ensures r@ == self@ { unimplemented!() }
}
impl core::ops::Deref for PathBuf {
    type Target = Path;
    #[verifier::external_body]
    fn deref(&self) -> (r: &Path) ensures r@ == self@ { unimplemented!() }
}
/// no component of the path is ".."
pub uninterp spec fn no_dotdot_component(p: Seq<u8>) -> bool;
impl vstd::std_specs::convert::FromSpecImpl<&OsStr> for PathBuf {
    open spec fn obeys_from_spec() -> bool { false }
    uninterp spec fn from_spec(s: &OsStr) -> PathBuf;
}
impl From<&OsStr> for PathBuf {
    #[verifier::external_body]
    fn from(s: &OsStr) -> (r: PathBuf) ensures r@ == s@ { unimplemented!() }
}
