    // ---- prelude/ancestors_spec.rs: ghost view of the Ancestors iterator (inside `impl Ancestors`)
    spec fn wf(&self) -> bool {
        match self.state {
            AncestorsIterState::Middle(idx) => idx <= self.inner@.len(),
            _ => true,
        }
    }
    /// termination measure: every `next()` that yields an item strictly decreases it
    spec fn measure(&self) -> int {
        match self.state {
            AncestorsIterState::Start => self.inner@.len() as int + 2,
            AncestorsIterState::Middle(idx) => idx as int + 1,
            AncestorsIterState::End => 0,
        }
    }
