// ---- prelude/root_types.rs: Handle / Permissions / rustix Dev -----------------------------
pub mod rustix_fs { pub type Dev = u64; }
#[verifier::external_body]
pub struct Permissions { _p: () }
impl Permissions {
    pub uninterp spec fn mode_spec(&self) -> u32;
    #[verifier::external_body]
    pub fn mode(&self) -> (r: u32) ensures r == self.mode_spec() { unimplemented!() }
}
/// (dir, name) is where the operation on `p` has to act: `dir` is the in-root resolution of
/// everything before the last '/', `name` is the final component (C14)
pub open spec fn is_target(dir: int, name: Seq<u8>, p: Seq<u8>) -> bool {
    exists|parent: Seq<u8>| (#[trigger] resolved_from(dir, requested_root(), parent, false))
        && split_ok(p, parent, Some(name))
}
/// the link body returned by readlink() was read from a handle obtained by a no-follow in-root lookup
pub open spec fn readlink_post(body: Seq<u8>, root: int, path: Seq<u8>) -> bool {
    exists|h: int| (#[trigger] link_body_of(h, body)) && lineage(h) && resolved_from(h, root, path, true)
}
/// the descriptor returned by create_file() is the one its own openat(parent, name, O_CREAT) returned
pub open spec fn create_file_post(fid: int, path: Seq<u8>) -> bool {
    exists|d: int, n: Seq<u8>| (#[trigger] opened_from(fid, d, n)) && is_target(d, n, path) && lineage(d)
}
