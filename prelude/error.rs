// ---- prelude/error.rs: the crate's error types (shadowing the crate's names) -------------
//@include prelude/errbase.rs
#[verifier::external_body]
pub struct SymlinkStackError { _p: () }

pub enum ErrorImpl {
    NotImplemented { feature: Cow },
    NotSupported { feature: Cow },
    InvalidArgument { name: Cow, description: Cow },
    SafetyViolation { description: Cow },
    BadSymlinkStackError { description: Cow, source: SymlinkStackError },
    OsError { operation: Cow, source: IOError },
    RawOsError { operation: Cow, source: SyscallError },
    ParseIntError(ParseIntError),
    Wrapped { context: Cow, source: Box<ErrorImpl> },
}
#[verifier::external_body]
pub struct ParseIntError { _p: () }

impl ErrorImpl {
    /// the specification of `ErrorImpl::kind` (proved against the repository text in U16)
    pub open spec fn kind_spec(&self) -> ErrorKind
        decreases self
    {
        match self {
            ErrorImpl::NotImplemented { .. } => ErrorKind::NotImplemented,
            ErrorImpl::NotSupported { .. } => ErrorKind::NotSupported,
            ErrorImpl::InvalidArgument { .. } => ErrorKind::InvalidArgument,
            ErrorImpl::SafetyViolation { .. } => ErrorKind::SafetyViolation,
            ErrorImpl::OsError { source, .. } => ErrorKind::OsError(source.raw()),
            ErrorImpl::RawOsError { source, .. } => ErrorKind::OsError(Some(source.errno_spec())),
            ErrorImpl::BadSymlinkStackError { .. } => ErrorKind::InternalError,
            ErrorImpl::ParseIntError(_) => ErrorKind::InternalError,
            ErrorImpl::Wrapped { source, .. } => source.kind_spec(),
        }
    }
}

pub struct Error(pub Box<ErrorImpl>);
impl Error {
    pub open spec fn kind_spec(&self) -> ErrorKind { self.0.kind_spec() }
    pub open spec fn errno_spec(&self) -> Option<i32> { self.kind_spec().errno_spec() }
    pub open spec fn is_safety(&self) -> bool { self.kind_spec() is SafetyViolation }
    pub open spec fn is_invalid_arg(&self) -> bool { self.kind_spec() is InvalidArgument }
    /// `Error::is_safety_violation`: errno() == EXDEV (also true for a plain OS error EXDEV)
    pub open spec fn is_safety_errno(&self) -> bool { self.kind_spec().errno_spec() == Some(libc::EXDEV) }
}
impl vstd::std_specs::convert::FromSpecImpl<ErrorImpl> for Error {
    open spec fn obeys_from_spec() -> bool { true }
    open spec fn from_spec(e: ErrorImpl) -> Error { Error(Box::new(e)) }
}
impl From<ErrorImpl> for Error { fn from(e: ErrorImpl) -> (r: Error) { Error(Box::new(e)) } }
pub assume_specification<T>[<T as core::convert::From<T>>::from](t: T) -> (r: T) ensures r == t;
/// Rust defines `e?` on `Err(e)` as `return Err(From::from(e))`; vstd states this with the
/// uninterpreted relation `spec_from`, which is tied to the crate's `From` impl here.
pub mod qaxioms {
    use super::*;
    pub broadcast axiom fn axiom_question_mark_errorimpl(e: ErrorImpl, e2: Error)
        ensures #[trigger] vstd::std_specs::control_flow::spec_from::<Error, ErrorImpl>(e, e2) ==> e2 == Error(Box::new(e));
}
//@broadcast qaxioms::axiom_question_mark_errorimpl vstd::std_specs::control_flow::spec_from_blanket_identity

impl ErrorKind {
    /// specification of `ErrorKind::errno` (proved against the repository text in U16)
    pub open spec fn errno_spec(&self) -> Option<i32> {
        match self {
            ErrorKind::NotImplemented => Some(libc::ENOSYS),
            ErrorKind::InvalidArgument => Some(libc::EINVAL),
            ErrorKind::SafetyViolation => Some(libc::EXDEV),
            ErrorKind::OsError(errno) => *errno,
            _ => None,
        }
    }
}

/// R5: `.wrap(..)` / `.with_wrap(..)` only add message context; `kind()` is preserved
/// (proved from the repository text of `ErrorImpl::with_wrap` and `Error::with_wrap` in U16; the `Result<T,E>` impl and the
/// default method `wrap`, which only forward to those two, are proved from their repository text in U29 against the abstract
/// relation `wrapped_of`).
pub trait ErrorExt: Sized {
    spec fn wrapped_of(self, inner: Self) -> bool;
    fn wrap<S>(self, context: S) -> (r: Self) ensures r.wrapped_of(self);
    fn with_wrap_dropped(self) -> (r: Self) ensures r.wrapped_of(self);
}
impl ErrorExt for Error {
    open spec fn wrapped_of(self, inner: Error) -> bool { self.kind_spec() == inner.kind_spec() }
    #[verifier::external_body]
    fn wrap<S>(self, context: S) -> (r: Self) { unimplemented!() }
    #[verifier::external_body]
    fn with_wrap_dropped(self) -> (r: Self) { unimplemented!() }
}
impl ErrorExt for ErrorImpl {
    open spec fn wrapped_of(self, inner: ErrorImpl) -> bool { self.kind_spec() == inner.kind_spec() }
    #[verifier::external_body]
    fn wrap<S>(self, context: S) -> (r: Self) { unimplemented!() }
    #[verifier::external_body]
    fn with_wrap_dropped(self) -> (r: Self) { unimplemented!() }
}
impl<T> ErrorExt for Result<T, Error> {
    open spec fn wrapped_of(self, inner: Result<T, Error>) -> bool {
        match (self, inner) {
            (Ok(a), Ok(b)) => a == b,
            (Err(a), Err(b)) => a.kind_spec() == b.kind_spec(),
            _ => false,
        }
    }
    #[verifier::external_body]
    fn wrap<S>(self, context: S) -> (r: Self) { unimplemented!() }
    #[verifier::external_body]
    fn with_wrap_dropped(self) -> (r: Self) { unimplemented!() }
}
impl<T> ErrorExt for Result<T, ErrorImpl> {
    open spec fn wrapped_of(self, inner: Result<T, ErrorImpl>) -> bool {
        match (self, inner) {
            (Ok(a), Ok(b)) => a == b,
            (Err(a), Err(b)) => a.kind_spec() == b.kind_spec(),
            _ => false,
        }
    }
    #[verifier::external_body]
    fn wrap<S>(self, context: S) -> (r: Self) { unimplemented!() }
    #[verifier::external_body]
    fn with_wrap_dropped(self) -> (r: Self) { unimplemented!() }
}
/// ghost record: this error is what a link probe (ProcfsHandle::readlink inside open_follow) answered
pub uninterp spec fn probe_result(e: Error) -> bool;
/// ghost record: the error was produced by a step of the procfs lookup itself (base directory, walk, mount check), not by the
/// machinery that builds a temporary unmasked handle
pub uninterp spec fn own_lookup_error(e: Error) -> bool;
