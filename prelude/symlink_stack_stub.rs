// ---- prelude/symlink_stack_stub.rs: the symlink stack as do_resolve sees it when only 'saved directories are in the root' matters
/// resolvers/opath/symlink_stack.rs (U21); `all_in_root`: every saved directory handle is in the root
// (impl SymlinkStack is proved against its specification in U25; the contracts below follow from it: a saved directory is only ever returned, never altered)
#[verifier::external_body]
#[verifier::reject_recursive_types(F)]
pub struct SymlinkStack<F> { _p: core::marker::PhantomData<F> }
#[verifier::external_body]
pub struct SymlinkStackErrorOpaque { _p: () }
impl SymlinkStack<OwnedFd> {
    // Representation invariant of the type (U21): every saved directory handle entered through
    // swap_link, whose precondition demands that it is in the root; so every handle that
    // pop_top_symlink hands back is in the root.
    #[verifier::external_body]
    pub fn new() -> (r: Self) { unimplemented!() }
    #[verifier::external_body]
    pub fn pop_part(&mut self, part: &OsString) -> (r: Result<(), SymlinkStackError>) { unimplemented!() }
    #[verifier::external_body]
    pub fn swap_link(&mut self, link_part: &OsString, dir_and_remaining: (&Rc<OwnedFd>, PathBuf), link_target: PathBuf) -> (r: Result<(), SymlinkStackError>)
        requires lineage(dir_and_remaining.0.id()),              // [C02+C12.swap_link.saved_directory_in_root]
            cloexec(dir_and_remaining.0.id()),              // [C11.swap_link.saved_directory_is_close_on_exec]
    { unimplemented!() }
    #[verifier::external_body]
    pub fn pop_top_symlink(&mut self) -> (r: Option<(Rc<OwnedFd>, PathBuf)>)
        ensures r matches Some((h, _)) ==> lineage(h.id()) && cloexec(h.id())
    { unimplemented!() }
}
