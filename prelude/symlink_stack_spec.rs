// ---- prelude/symlink_stack_spec.rs: abstract view and specification of the symlink stack ---------------
// (module documentation of symlink_stack.rs restated: one entry per symlink being resolved, holding the
// (directory, remaining path) to report if the link turns out dangling, and the link's own components that
// are still to be walked; "" and "." components are never recorded and never popped)
pub assume_specification<T, A: core::alloc::Allocator>[VecDeque::<T, A>::get_mut](v: &mut VecDeque<T, A>, i: usize) -> (r: Option<&mut T>)
    ensures
        i < old(v)@.len() ==> r is Some,
        r matches Some(x) ==> i < old(v)@.len() && *x == old(v)@[i as int] && final(v)@ == old(v)@.update(i as int, *final(x)),
        r is None ==> final(v)@ == old(v)@;
pub assume_specification<T, A: core::alloc::Allocator>[VecDeque::<T, A>::front](v: &VecDeque<T, A>) -> (r: Option<&T>)
    ensures v@.len() == 0 ==> r is None, v@.len() > 0 ==> (r matches Some(x) && *x == v@[0]);
pub assume_specification<T, A: core::alloc::Allocator>[VecDeque::<T, A>::back](v: &VecDeque<T, A>) -> (r: Option<&T>)
    ensures v@.len() == 0 ==> r is None, v@.len() > 0 ==> (r matches Some(x) && *x == v@[v@.len() - 1]);

pub assume_specification<T, A: core::alloc::Allocator>[VecDeque::<T, A>::back_mut](v: &mut VecDeque<T, A>) -> (r: Option<&mut T>)
    ensures
        old(v)@.len() > 0 ==> r is Some,
        r matches Some(x) ==> old(v)@.len() > 0 && *x == old(v)@[old(v)@.len() - 1] && final(v)@ == old(v)@.update(old(v)@.len() - 1, *final(x)),
        r is None ==> final(v)@ == old(v)@ && old(v)@.len() == 0;
pub open spec fn DOTC() -> Seq<u8> { seq![46u8] }
pub open spec fn nontrivial(c: Seq<u8>) -> bool { c.len() > 0 && c != DOTC() }
/// every saved directory is inside the root and close-on-exec (what do_resolve needs to hand one back)
pub open spec fn all_ok(s: Seq<EntryV<OwnedFd>>) -> bool { forall|i: int| 0 <= i < s.len() ==> lineage((#[trigger] s[i]).dir.id()) && cloexec(s[i].dir.id()) }
pub struct EntryV<F> { pub dir: Rc<F>, pub rem: Seq<u8>, pub parts: Seq<Seq<u8>> }
pub enum PopV<F> { Popped(Seq<EntryV<F>>), EmptyStack, BrokenEmpty, BrokenWrong }
pub open spec fn ss_push<F>(s: Seq<EntryV<F>>, dir: Rc<F>, rem: Seq<u8>, target: Seq<u8>) -> Seq<EntryV<F>> {
    s.push(EntryV { dir, rem, parts: split(target).filter(|c: Seq<u8>| nontrivial(c)) })
}
pub open spec fn ss_pop<F>(s: Seq<EntryV<F>>, part: Seq<u8>) -> PopV<F> {
    if part == DOTC() { PopV::Popped(s) }
    else if s.len() == 0 { PopV::EmptyStack }
    else {
        let t = s[s.len() - 1];
        if t.parts.len() == 0 { PopV::BrokenEmpty }
        else if t.parts[0] != part { PopV::BrokenWrong }
        else { PopV::Popped(s.update(s.len() - 1, EntryV { dir: t.dir, rem: t.rem, parts: t.parts.skip(1) })) }
    }
}
/// entries at the tail whose link has been walked completely are dropped once a regular component was walked
pub open spec fn strip_tail<F>(s: Seq<EntryV<F>>) -> Seq<EntryV<F>>
    decreases s.len()
{
    if s.len() > 0 && s[s.len() - 1].parts.len() == 0 { strip_tail(s.drop_last()) } else { s }
}
/// R6: `link_target.raw_components().map(OsString::from).filter(keep).collect::<VecDeque<OsString>>()`
/// (RawComponents::next is proved in U01 to yield split(); map/filter/collect by std semantics, A7).
/// The filter predicate stays the code's own closure: its postcondition is the obligation.
#[verifier::external_body]
pub fn collect_filtered<K: Fn(&OsString) -> bool>(p: &PathBuf, keep: K) -> (r: VecDeque<OsString>)
    requires
        forall|x: &OsString| #[trigger] keep.requires((x,)),
        forall|x: &OsString, k: bool| #[trigger] keep.ensures((x,), k) ==> k == nontrivial(x@),      // [C04+C12.do_push.records_exactly_the_components_that_will_be_popped]
    ensures
        cv(r@) == split(p@).filter(|c: Seq<u8>| nontrivial(c)),
{ unimplemented!() }
#[verifier::external_body]
pub fn osstring_eq_osstr(a: &OsString, b: &OsStr) -> (r: bool) ensures r == (a@ == b@) { unimplemented!() }
#[verifier::external_body]
pub fn osstring_clone(a: &OsString) -> (r: OsString) ensures r@ == a@ { unimplemented!() }

pub proof fn lemma_all_ok_strip(s: Seq<EntryV<OwnedFd>>)
    requires all_ok(s)
    ensures all_ok(strip_tail(s))
    decreases s.len()
{
    if s.len() > 0 && s[s.len() - 1].parts.len() == 0 {
        assert forall|i: int| 0 <= i < s.drop_last().len() implies lineage((#[trigger] s.drop_last()[i]).dir.id()) && cloexec(s.drop_last()[i].dir.id()) by {
            assert(s.drop_last()[i] == s[i]);
        }
        lemma_all_ok_strip(s.drop_last());
    }
}
/// popping a recorded component (and dropping finished links) never changes which directories are saved
pub proof fn lemma_all_ok_pop(s: Seq<EntryV<OwnedFd>>, part: Seq<u8>)
    requires all_ok(s)
    ensures ss_pop(s, part) matches PopV::Popped(s2) ==> all_ok(s2) && all_ok(strip_tail(s2))
{
    if let PopV::Popped(s2) = ss_pop(s, part) {
        assert forall|i: int| 0 <= i < s2.len() implies lineage((#[trigger] s2[i]).dir.id()) && cloexec(s2[i].dir.id()) by {
            assert(s2[i].dir == s[i].dir);
        }
        lemma_all_ok_strip(s2);
    }
}
pub mod ss_lemmas {
    use vstd::prelude::*;
    /// mapping commutes with taking a sub-range (the view of the stack after VecDeque::pop_back / pop_front;
    /// `drop_last` and `skip` are sub-ranges)
    pub broadcast proof fn lemma_map_subrange<A, B>(s: Seq<A>, f: spec_fn(A) -> B, i: int, j: int)
        requires 0 <= i <= j <= s.len()
        ensures #[trigger] s.subrange(i, j).map_values(f) =~= s.map_values(f).subrange(i, j)
    {}
}
//@broadcast ss_lemmas::lemma_map_subrange
