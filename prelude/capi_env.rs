// ---- prelude/capi_env.rs: environment of the C API layer -------------------------------------
pub type c_int = i32;
pub type c_char = i8;
pub type size_t = usize;
pub type CReturn = c_int;
/// C strings handed in by the caller: NUL-terminated, `cstr_bytes(p)` are the bytes before the NUL
pub uninterp spec fn cstr_bytes(p: *const c_char) -> Seq<u8>;
/// rigid: the capacity the C caller promises for its buffer (it passes it as `bufsize`)
pub uninterp spec fn promised_capacity() -> usize;
#[verifier::external_body]
pub struct CStr { _p: () }
impl CStr {
    pub uninterp spec fn view(&self) -> Seq<u8>;
    #[verifier::external_body]
    pub fn from_ptr<'a>(p: *const c_char) -> (r: &'a CStr)
        requires !(p@.addr == 0)                       // [C17.parse_path.null_never_dereferenced]
        ensures r@ == cstr_bytes(p), no_nul(r@)
    { unimplemented!() }
    #[verifier::external_body]
    pub fn to_bytes(&self) -> (r: &[u8]) ensures r@ == self@ { unimplemented!() }
}
#[verifier::external_body]
pub struct CString { _p: () }
#[verifier::external_body]
pub struct NulError { _p: () }
impl core::fmt::Debug for NulError { #[verifier::external_body] fn fmt(&self, f: &mut core::fmt::Formatter<'_>) -> core::fmt::Result { unimplemented!() } }
impl CString {
    pub uninterp spec fn view(&self) -> Seq<u8>;
    /// A7: CString::new fails exactly when the bytes contain a NUL
    #[verifier::external_body]
    pub fn new(b: &[u8]) -> (r: Result<CString, NulError>)
        ensures no_nul(b@) ==> r is Ok, r matches Ok(c) ==> c@ == b@
    { unimplemented!() }
    #[verifier::external_body]
    pub fn to_bytes(&self) -> (r: &[u8]) ensures r@ == self@ { unimplemented!() }
    #[verifier::external_body]
    pub fn as_bytes(&self) -> (r: &[u8]) ensures r@ == self@ { unimplemented!() }
    #[verifier::external_body]
    pub fn as_bytes_with_nul(&self) -> (r: &[u8]) ensures r@ == self@.push(0u8) { unimplemented!() }
    #[verifier::external_body]
    pub fn as_ptr(&self) -> (r: *const c_char) { unimplemented!() }
}
/// `ptr::copy_nonoverlapping(src, dst, count)`: the obligation is what makes it memory safe here
#[verifier::external_body]
pub fn copy_nonoverlapping_bytes(src: &CString, dst: *mut c_char, count: usize)
    requires
        !(dst@.addr == 0),                             // [C17.copy.null_buffer_never_written]
        count <= promised_capacity(),                  // [C17.copy.never_beyond_the_callers_buffer]
        count <= src@.len() + 1,                       // [C17.copy.never_beyond_the_source]
        count as int == (if src@.len() <= promised_capacity() { src@.len() as int } else { promised_capacity() as int }),   // [C17.copy.exactly_min_of_link_length_and_buffer_size_bytes]
{ unimplemented!() }
pub fn cstring_ghost(c: &CString) -> (g: Ghost<Seq<u8>>) ensures g@ == c@ { Ghost(c@) }
/// the same copy from a byte slice (e.g. `as_bytes_with_nul()`); `body` is the link body the call is about
#[verifier::external_body]
pub fn copy_nonoverlapping_slice(src: &[u8], body: Ghost<Seq<u8>>, dst: *mut c_char, count: usize)
    requires
        !(dst@.addr == 0),                             // [C17.copy.null_buffer_never_written]
        count <= promised_capacity(),                  // [C17.copy.never_beyond_the_callers_buffer]
        count <= src@.len(),                           // [C17.copy.never_beyond_the_source]
        count as int == (if body@.len() <= promised_capacity() { body@.len() as int } else { promised_capacity() as int }),   // [C17.copy.exactly_min_of_link_length_and_buffer_size_bytes]
{ unimplemented!() }
pub mod cmp {
    use vstd::prelude::*;
    pub fn min(a: usize, b: usize) -> (r: usize) ensures r == (if a <= b { a } else { b }) { if a <= b { a } else { b } }
}
/// R12: `p.is_null()` on raw pointers (vstd has no specification for it)
pub trait IsNullShim { spec fn is_null_spec(&self) -> bool; fn is_null_shim(&self) -> (r: bool) ensures r == self.is_null_spec(); }
impl<T> IsNullShim for *const T {
    open spec fn is_null_spec(&self) -> bool { self@.addr == 0 }
    #[verifier::external_body]
    fn is_null_shim(&self) -> (r: bool) { self.is_null() }
}
impl<T> IsNullShim for *mut T {
    open spec fn is_null_spec(&self) -> bool { self@.addr == 0 }
    #[verifier::external_body]
    fn is_null_shim(&self) -> (r: bool) { self.is_null() }
}
use std::collections::HashMap;
/// errno reported to C: |errno| of the failure, 0 if it has none
pub open spec fn errno_abs(e: Error) -> u64 {
    match e.kind_spec().errno_spec() {
        Some(x) => (if x < 0 { -(x as int) } else { x as int }) as u64,
        None => 0u64,
    }
}
pub uninterp spec fn stored_error(id: i32, e: Error) -> bool;
/// R16: `ERROR_MAP.try_lock().ok()?` -- like lock_section_begin, but another thread may hold the lock at this moment: then the
/// acquisition fails (false) and nothing is known about what the caller will do
#[verifier::external_body]
pub fn try_lock_section_begin(m: &mut HashMap<CReturn, Error>, sections: &mut Ghost<nat>) -> (acquired: bool)
    ensures
        final(sections)@ == old(sections)@ + 1,
        old(sections)@ == 0 ==> final(m)@ == old(m)@,
{ unimplemented!() }
/// R16: `ERROR_MAP.lock().unwrap()`.  The map is passed in as `err_map`; `sections` counts the acquisitions made by
/// this call.  The first critical section sees the map as it was on entry; between two critical sections other
/// threads run, so from the second acquisition on the content is arbitrary.  (Poisoning is not modelled: no code
/// under contract panics while holding the lock.)
#[verifier::external_body]
pub fn lock_section_begin(m: &mut HashMap<CReturn, Error>, sections: &mut Ghost<nat>)
    ensures
        final(sections)@ == old(sections)@ + 1,
        old(sections)@ == 0 ==> final(m)@ == old(m)@,
{ unimplemented!() }
pub assume_specification[i32::unsigned_abs](x: i32) -> (r: u32)
    ensures r as int == (if x < 0 { -(x as int) } else { x as int });
pub mod rand {
    use vstd::prelude::*;
    #[verifier::external_body]
    pub struct ThreadRng { _p: () }
    #[verifier::external_body]
    pub fn thread_rng() -> ThreadRng { unimplemented!() }
    impl ThreadRng {
        /// A7: `gen_range(a..=b)` returns a value in [a, b]
        #[verifier::external_body]
        pub fn gen_range_inclusive(&mut self, lo: i32, hi: i32) -> (r: i32)
            requires lo <= hi
            ensures lo <= r <= hi
        { unimplemented!() }
    }
}
/// R5: the description text (Display of the error chain) is dropped; it cannot affect errno or ids.
/// NOTE (unverified): the real code panics (`expect`) if the text contains a NUL byte.
#[verifier::external_body]
pub fn describe_dropped(err: &Error) -> CString { unimplemented!() }
impl CString {
    #[verifier::external_body]
    pub fn into_raw(self) -> (r: *mut c_char) { unimplemented!() }
}
pub trait Leakable: Sized {
    #[verifier::external_body]
    fn leak(self) -> (r: &'static mut Self) ensures *r == self { unimplemented!() }
}
