// ---- prelude/veciter.rs: `for x in vec` (R13f) — std's vec::IntoIter yields the elements in order (A7)
pub struct VecIter<T> { pub items: Vec<T>, pub pos: usize }
impl<T> VecIter<T> {
    #[verifier::external_body]
    pub fn next(&mut self) -> (r: Option<T>)
        requires old(self).pos <= old(self).items@.len()
        ensures
            final(self).items@ == old(self).items@,
            old(self).pos < old(self).items@.len() ==> (r == Some(old(self).items@[old(self).pos as int]) && final(self).pos == old(self).pos + 1),
            old(self).pos >= old(self).items@.len() ==> (r is None && final(self).pos == old(self).pos),
    { unimplemented!() }
}
pub fn into_iter_shim<T>(v: Vec<T>) -> (r: VecIter<T>) ensures r.items@ == v@, r.pos == 0 { VecIter { items: v, pos: 0 } }

/// a component mkdir_all may create: non-empty, not "."
pub open spec fn part_ok(p: Seq<u8>) -> bool { p.len() > 0 && !is_dot(p) }
/// R6 (collect_nonempty_parts): `remaining.iter().flat_map(raw_components).map(to_os_string)
/// .filter(|part| !part.is_empty() && part.as_bytes() != b".").collect::<Vec<_>>()`.
/// The element property is what the filter closure states; that the elements are exactly the
/// '/'-separated pieces of `remaining` is RawComponents::next's contract (U01) plus std's
/// flat_map/map/filter/collect semantics (assumed, A7).
#[verifier::external_body]
pub fn collect_nonempty_parts(remaining: &Option<PathBuf>) -> (r: Vec<OsString>)
    ensures
        forall|k: int| 0 <= k < r@.len() ==> part_ok(#[trigger] r@[k]@),
        remaining is None ==> r@.len() == 0,
{ unimplemented!() }
/// R6 (any_dotdot): `parts.iter().any(|part| part.as_bytes() == b"..")`
pub fn any_dotdot(parts: &Vec<OsString>) -> (r: bool)
    ensures r == (exists|k: int| 0 <= k < parts@.len() && is_dotdot(#[trigger] parts@[k]@))
{
    let mut i: usize = 0;
    while i < parts.len()
        invariant i <= parts.len(), forall|k: int| 0 <= k < i ==> !is_dotdot(#[trigger] parts@[k]@),
        decreases parts.len() - i
    {
        if bytes_eq(parts[i].as_bytes(), &[46u8, 46u8]) { return true; }
        i += 1;
    }
    false
}
