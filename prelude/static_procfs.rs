// ---- prelude/static_procfs.rs: kernel semantics of a confined procfs lookup on a static tree -------
// Oracle: openat2(2) with RESOLVE_BENEATH|RESOLVE_NO_XDEV|RESOLVE_NO_MAGICLINKS plus the property text of
// C07 ('..' => EXDEV, absolute link bodies => ELOOP).  The final component follows the kernel's open(2)
// rules for O_PATH / O_NOFOLLOW / O_DIRECTORY (the table in the source comment of opath_resolve).
pub open spec fn f_opath(b: i32) -> bool { b & libc::O_PATH == libc::O_PATH }
pub open spec fn f_onf(b: i32) -> bool { b & libc::O_NOFOLLOW == libc::O_NOFOLLOW }
pub open spec fn f_odir(b: i32) -> bool { b & libc::O_DIRECTORY == libc::O_DIRECTORY }
/// open(2) of the object `i` itself with O_NOFOLLOW in effect
pub open spec fn kopen(i: int, opath: bool, odir: bool) -> KRes {
    if fs_is_symlink(i) {
        if odir { KRes::Fail(libc::ENOTDIR as int) } else if opath { KRes::Done(i) } else { KRes::Fail(libc::ELOOP as int) }
    } else if odir && !fs_is_dir(i) {
        KRes::Fail(libc::ENOTDIR as int)
    } else {
        KRes::Done(i)
    }
}
pub open spec fn pres(cur: int, comps: Seq<Comp>, n: nat, opath: bool, onf: bool, odir: bool, nosym: bool) -> KRes
    decreases 40 - n, comps.len()
{
    if comps.len() == 0 {
        KRes::Done(cur)
    } else {
        let c0 = comps[0];
        let rest = comps.skip(1);
        let c = if c0 == EMPTY() { DOT() } else { c0 };
        if c == DOTDOT() {
            KRes::Fail(libc::EXDEV as int)
        } else if !fs_is_dir(cur) {
            KRes::Fail(libc::ENOTDIR as int)
        } else {
            match fs_lookup(cur, c) {
                None => KRes::Fail(libc::ENOENT as int),
                Some(nx) => {
                    if rest.len() == 0 && (!fs_is_symlink(nx) || onf) {
                        kopen(nx, opath, odir)
                    } else if !fs_is_symlink(nx) {
                        pres(nx, rest, n, opath, onf, odir, nosym)
                    } else if nosym {
                        KRes::Fail(libc::ELOOP as int)
                    } else if n >= 40 {       // fs/namei.c: total_link_count++ >= MAXSYMLINKS (40)
                        KRes::Fail(libc::ELOOP as int)
                    } else {
                        let t = fs_target(nx);
                        if is_abs(t) { KRes::Fail(libc::ELOOP as int) } else { pres(cur, split(t) + rest, n + 1, opath, onf, odir, nosym) }
                    }
                }
            }
        }
    }
}
/// RESOLVE_BENEATH refuses an absolute path outright (EXDEV) -- openat2(2)
pub open spec fn pres_top(path: Seq<u8>, opath: bool, onf: bool, odir: bool, nosym: bool) -> KRes {
    if is_abs(path) { KRes::Fail(libc::EXDEV as int) } else { pres(fs_root(), split(path), 0, opath, onf, odir, nosym) }
}
pub open spec fn pres_ok(res: Result<OwnedFd, Error>, goal: KRes) -> bool {
    match res {
        Ok(fd) => goal == KRes::Done(ino_of(fd.id()) as int),
        Err(e) => (e.errno_spec() matches Some(x) && goal == KRes::Fail(x as int)),
    }
}

pub proof fn lemma_pflags(b: i32)
    ensures
        ((b & (libc::O_PATH | libc::O_NOFOLLOW | libc::O_DIRECTORY)) != libc::O_PATH) == !(f_opath(b) && !f_onf(b) && !f_odir(b)),
        f_opath(b | libc::O_NOFOLLOW) == f_opath(b),
        f_odir(b | libc::O_NOFOLLOW) == f_odir(b),
        (b & libc::O_NOFOLLOW == libc::O_NOFOLLOW) == f_onf(b),
        (b & libc::O_DIRECTORY == libc::O_DIRECTORY) == f_odir(b),
        f_opath(libc::O_PATH | libc::O_NOFOLLOW), !f_odir(libc::O_PATH | libc::O_NOFOLLOW),
{
    assert((0o10000000i32 | 0o400000i32) & 0o10000000i32 == 0o10000000i32) by (bit_vector);
    assert((0o10000000i32 | 0o400000i32) & 0o200000i32 != 0o200000i32) by (bit_vector);
    assert(((b & (0o10000000i32 | 0o400000i32 | 0o200000i32)) != 0o10000000i32)
        == !((b & 0o10000000i32 == 0o10000000i32) && !(b & 0o400000i32 == 0o400000i32) && !(b & 0o200000i32 == 0o200000i32))) by (bit_vector);
    assert(((b | 0o400000i32) & 0o10000000i32 == 0o10000000i32) == (b & 0o10000000i32 == 0o10000000i32)) by (bit_vector);
    assert(((b | 0o400000i32) & 0o200000i32 == 0o200000i32) == (b & 0o200000i32 == 0o200000i32)) by (bit_vector);
}
