// ---- prelude/symlink_stack_stub_static.rs: opaque symlink stack for the static-tree unit (its behaviour cannot change a result there)
/// resolvers/opath/symlink_stack.rs (U21); `all_in_root`: every saved directory handle is in the root
// (impl SymlinkStack is proved against its specification in U25; the contracts below follow from it: a saved directory is only ever returned, never altered)
#[verifier::external_body]
#[verifier::reject_recursive_types(F)]
pub struct SymlinkStack<F> { _p: core::marker::PhantomData<F> }
#[verifier::external_body]
pub struct SymlinkStackErrorOpaque { _p: () }
impl SymlinkStack<OwnedFd> {
    // Representation invariant of the type (U21): every saved directory handle entered through
    // swap_link, whose precondition demands that it is in the root; so every handle that
    // pop_top_symlink hands back is in the root.
    #[verifier::external_body]
    pub fn new() -> (r: Self) { unimplemented!() }
    #[verifier::external_body]
    pub fn pop_part(&mut self, part: &OsString) -> (r: Result<(), SymlinkStackError>) { unimplemented!() }
    #[verifier::external_body]
    pub fn swap_link(&mut self, link_part: &OsString, dir_and_remaining: (&Rc<OwnedFd>, PathBuf), link_target: PathBuf) -> (r: Result<(), SymlinkStackError>)
            { unimplemented!() }
    #[verifier::external_body]
    pub fn pop_top_symlink(&mut self) -> (r: Option<(Rc<OwnedFd>, PathBuf)>)
    { unimplemented!() }
}
