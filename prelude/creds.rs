// ---- prelude/creds.rs: process credentials (rustix::process) -----------------------------------
/// the caller's effective uid -- the kernel's permission checks (fs.protected_symlinks included) use the
/// fsuid, which follows the effective uid unless setfsuid(2) is used (stated approximation, DESIGN C15)
pub uninterp spec fn euid_spec() -> u32;
/// the caller's filesystem uid: what fs/namei.c may_follow_link() compares the link owner with (current_fsuid())
pub uninterp spec fn fsuid_spec() -> u32;
/// the caller's real uid: NOT what the kernel's rule looks at
pub uninterp spec fn ruid_spec() -> u32;
pub mod rustix_process {
    use vstd::prelude::*;
    pub type RawUid = u32;
    pub type RawGid = u32;
    pub type RawPid = i32;
    pub struct Uid { pub raw: u32 }
    impl Uid { pub fn as_raw(self) -> (r: u32) ensures r == self.raw { self.raw } }
    #[verifier::external_body]
    pub fn geteuid() -> (r: Uid) ensures r.raw == super::euid_spec() { unimplemented!() }
    #[verifier::external_body]
    pub fn getuid() -> (r: Uid) ensures r.raw == super::ruid_spec() { unimplemented!() }
}
