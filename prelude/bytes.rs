// ---- prelude/bytes.rs: byte-sequence vocabulary (spec) and proved helpers -------------
pub open spec fn no_slash(p: Seq<u8>) -> bool { forall|i: int| 0 <= i < p.len() ==> p[i] != 47u8 }
pub open spec fn has_slash(p: Seq<u8>) -> bool { exists|i: int| 0 <= i < p.len() && p[i] == 47u8 }
pub open spec fn no_nul(p: Seq<u8>) -> bool { forall|i: int| 0 <= i < p.len() ==> p[i] != 0u8 }
pub open spec fn is_dot(p: Seq<u8>) -> bool { p =~= seq![46u8] }
pub open spec fn is_dotdot(p: Seq<u8>) -> bool { p =~= seq![46u8, 46u8] }
/// a single path component: non-empty, no '/'
pub open spec fn single_component(p: Seq<u8>) -> bool { p.len() > 0 && no_slash(p) }
/// a name that designates a directory *entry* (what the mutating *at calls need)
pub open spec fn entry_name(p: Seq<u8>) -> bool { single_component(p) && !is_dot(p) && !is_dotdot(p) }

pub proof fn lemma_slash_dichotomy(p: Seq<u8>)
    ensures no_slash(p) <==> !has_slash(p)
{}

pub fn bytes_eq(a: &[u8], b: &[u8]) -> (r: bool)
    ensures r == (a@ =~= b@)
{
    if a.len() != b.len() { return false; }
    let mut i: usize = 0;
    while i < a.len()
        invariant i <= a.len(), a.len() == b.len(), forall|j: int| 0 <= j < i ==> a@[j] == b@[j],
        decreases a.len() - i
    {
        if a[i] != b[i] { return false; }
        i += 1;
    }
    true
}

/// `s.contains(&c)` on byte slices (rule R6c); proved against its spec.
pub fn bytes_contains(s: &[u8], c: u8) -> (r: bool)
    ensures r == (exists|i: int| 0 <= i < s@.len() && s@[i] == c)
{
    let mut i: usize = 0;
    while i < s.len()
        invariant i <= s.len(), forall|j: int| 0 <= j < i ==> s@[j] != c,
        decreases s.len() - i
    {
        if s[i] == c { return true; }
        i += 1;
    }
    false
}

/// `s.iter().all(|&b| b == c)` on byte slices (rule R6c); proved against its spec.
pub fn bytes_all_eq(s: &[u8], c: u8) -> (r: bool)
    ensures r == (forall|i: int| 0 <= i < s@.len() ==> s@[i] == c)
{
    let mut i: usize = 0;
    while i < s.len()
        invariant i <= s.len(), forall|j: int| 0 <= j < i ==> s@[j] == c,
        decreases s.len() - i
    {
        if s[i] != c { return false; }
        i += 1;
    }
    true
}

#[verifier::external_body]
pub fn empty_bytes() -> (r: &'static [u8]) ensures r@.len() == 0 { &[] }

/// R9: `assert!(c, ..)` — the condition becomes a proof obligation (panic freedom)
pub fn runtime_assert(c: bool) requires c {}
/// R9: `debug_assert!(c)` -- compiled out of release builds.  If it cannot be shown to hold the check is *undecided*: an
/// unprovable debug assertion is not evidence that a property is broken.
pub fn debug_assert_shim(c: bool)
    requires c,            // [UNDECIDED.debug_assert.cannot_be_shown_to_hold]
{}
pub assume_specification[i32::is_negative](x: i32) -> (r: bool) ensures r == (x < 0);
pub assume_specification[i32::is_positive](x: i32) -> (r: bool) ensures r == (x > 0);
// std combinators without closures that vstd does not specify
pub assume_specification<T, E>[Result::<T, E>::unwrap_or](r: Result<T, E>, d: T) -> (o: T)
    ensures o == (match r { Ok(v) => v, Err(_) => d });
pub assume_specification<T, E, F>[Result::<T, E>::or](r: Result<T, E>, res: Result<T, F>) -> (o: Result<T, F>)
    ensures o == (match r { Ok(v) => Ok::<T, F>(v), Err(_) => res });
// an explicit `drop(x)` ends the value's life where the scope would have ended it: no effect on the ghost state
pub assume_specification<T>[core::mem::drop::<T>](x: T);
