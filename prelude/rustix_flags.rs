// ---- prelude/rustix_flags.rs: rustix's flag words and the *specification* of the crate's conversions into them ----
// (shared by prelude/rustix.rs, where the conversions are stubs, and by U28, where the repository text of the two
// `From` impls of src/flags.rs is proved against `from_spec`)
pub struct OFlags { pub bits: i32 }
impl OFlags {
    /// A7: rustix's `OFlags` is a bitflags word over `c_uint`; the model keeps it as the i32 the crate's own type uses
    pub fn from_bits_retain(b: u32) -> (r: OFlags) ensures r.bits == b as i32 { OFlags { bits: b as i32 } }
}
impl vstd::std_specs::convert::FromSpecImpl<OpenFlags> for OFlags {
    open spec fn obeys_from_spec() -> bool { true }
    open spec fn from_spec(f: OpenFlags) -> OFlags { OFlags { bits: f.bits } }
}
pub struct RustixRenameFlags { pub bits: u32 }
impl RustixRenameFlags {
    pub fn from_bits_retain(b: u32) -> (r: RustixRenameFlags) ensures r.bits == b { RustixRenameFlags { bits: b } }
}
impl vstd::std_specs::convert::FromSpecImpl<RenameFlags> for RustixRenameFlags {
    open spec fn obeys_from_spec() -> bool { true }
    open spec fn from_spec(f: RenameFlags) -> RustixRenameFlags { RustixRenameFlags { bits: f.bits } }
}
