// ---- prelude/handle.rs: impls around the (extracted) struct Handle --------------------------
impl vstd::std_specs::convert::FromSpecImpl<Handle> for OwnedFd {
    open spec fn obeys_from_spec() -> bool { true }
    open spec fn from_spec(h: Handle) -> OwnedFd { h.inner }
}
impl From<Handle> for OwnedFd { fn from(h: Handle) -> (r: OwnedFd) { h.inner } }
impl vstd::std_specs::convert::FromSpecImpl<OwnedFd> for Handle {
    open spec fn obeys_from_spec() -> bool { true }
    open spec fn from_spec(fd: OwnedFd) -> Handle { Handle { inner: fd } }
}
impl From<OwnedFd> for Handle { fn from(fd: OwnedFd) -> (r: Handle) { Handle { inner: fd } } }
impl AsFd for Handle {
    open spec fn fd_id(&self) -> int { self.inner.id() }
    fn as_fd(&self) -> (r: BorrowedFd<'_>) { self.inner.as_fd() }
}
