// ---- prelude/rustix.rs: the rustix / libc boundary (A7: arguments reach the kernel unchanged)
// The preconditions below ARE the syscall discipline of C05 at the lowest level under contract;
// the postconditions are the kernel axioms A1/A4 (DESIGN.md 4.2).
//@include prelude/rustix_flags.rs
/// flags.rs: `impl From<OpenFlags> for rustix::fs::OFlags` / `impl From<RenameFlags> for rustix::fs::RenameFlags`: stubs here,
/// their repository text is proved against the same `from_spec` in U28
impl From<OpenFlags> for OFlags { fn from(f: OpenFlags) -> (r: OFlags) { OFlags { bits: f.bits } } }
impl From<RenameFlags> for RustixRenameFlags { fn from(f: RenameFlags) -> (r: RustixRenameFlags) { RustixRenameFlags { bits: f.bits } } }
pub struct Mode { pub raw: u32 }
impl Mode { pub fn from_raw_mode(m: u32) -> (r: Mode) ensures r.raw == m { Mode { raw: m } } }
pub struct FileType { pub raw: u32 }
impl FileType { pub fn from_raw_mode(m: u32) -> (r: FileType) ensures r.raw == m { FileType { raw: m } } }
pub type Dev = u64;
pub type RawFd = i32;
//@include prelude/stat.rs
#[verifier::external_body] pub struct FrozenFd { _p: () }
impl<'a> From<BorrowedFd<'a>> for FrozenFd { #[verifier::external_body] fn from(fd: BorrowedFd<'a>) -> FrozenFd { unimplemented!() } }
impl From<&Path> for PathBuf { #[verifier::external_body] fn from(p: &Path) -> PathBuf { unimplemented!() } }

pub open spec fn stat_flags_ok(f: AtFlags) -> bool { f.bits == 0x800u32 | 0x100u32 | 0x1000u32 }

/// R8: `PathBuf::from(OsStr::from_bytes(b))`
#[verifier::external_body]
pub fn pathbuf_from_bytes(b: &[u8]) -> (r: PathBuf) ensures r@ == b@ { unimplemented!() }
pub mod rustix_fs {
    use super::*;
    /// R12: the `[MaybeUninit<u8>; N]` scratch buffer handed to readlinkat_raw (only its capacity matters)
    pub struct LinkBuf { pub cap: usize }
    impl LinkBuf { pub fn uninit(n: usize) -> (r: LinkBuf) ensures r.cap == n { LinkBuf { cap: n } } }
    /// rustix readlinkat_raw: (initialised prefix = what the kernel wrote, uninitialised rest).  readlinkat(2)
    /// truncates silently, so the body is known to be complete only if the buffer was not filled (A7).
    #[verifier::external_body]
    pub fn readlinkat_raw<'a, Fd: AsFd, P: AsRefPath>(dirfd: Fd, path: P, buf: &'a mut LinkBuf) -> (r: Result<(&'a [u8], &'a [u8]), Errno>)
        requires
            valid_dirfd(dirfd.fd_id()),                                   // [C05+C10.rustix_readlinkat.valid_dirfd]
            path.pview().len() == 0,                                      // [C01+C02+C05+C06+C07.rustix_readlinkat.empty_path_reads_the_fd_itself]
        ensures
            r matches Ok((t, rest)) ==> t@.len() + rest@.len() == old(buf).cap && no_nul(t@)
                && (rest@.len() > 0 ==> link_body_of(dirfd.fd_id(), t@))
                && t@.len() <= 4095,                  // A7: a link body is shorter than PATH_MAX
            r matches Err(e) ==> e.raw != 36,         // A7: readlinkat(fd, "") itself never fails with ENAMETOOLONG
    { unimplemented!() }
    pub fn major(dev: Dev) -> u32 { 0 }
    pub fn minor(dev: Dev) -> u32 { 0 }
    #[verifier::external_body]
    pub fn openat<Fd: AsFd, P: AsRefPath>(dirfd: Fd, path: P, oflags: OFlags, mode: Mode) -> (r: Result<OwnedFd, Errno>)
        requires
            valid_dirfd(dirfd.fd_id()),                                   // [C05+C10.rustix_openat.valid_dirfd]
            has(oflags.bits, libc::O_CLOEXEC),                            // [C05+C11.rustix_openat.cloexec]
            has(oflags.bits, libc::O_NOCTTY),                             // [C05.rustix_openat.noctty]
        ensures
            r matches Ok(fd) ==> kflags(fd.id()) == oflags.bits,
            r matches Ok(fd) ==> (has(oflags.bits, libc::O_CLOEXEC) ==> cloexec(fd.id())),
            r matches Ok(fd) ==> opened_from(fd.id(), dirfd.fd_id(), path.pview()),
            // A1 walk-down
            r matches Ok(fd) ==> (has(oflags.bits, libc::O_NOFOLLOW) && single_component(path.pview()) && !is_dotdot(path.pview())
                                  && lineage(dirfd.fd_id()) ==> lineage(fd.id())),
    { unimplemented!() }
    #[verifier::external_body]
    pub fn mkdirat<Fd: AsFd, P: AsRefPath>(dirfd: Fd, path: P, mode: Mode) -> (r: Result<(), Errno>)
        requires valid_dirfd(dirfd.fd_id()), mode.raw == requested_passthrough_mode(),     // [C05+C12+C14.rustix_mkdirat.mode_unchanged]
    { unimplemented!() }
    #[verifier::external_body]
    pub fn mknodat<Fd: AsFd, P: AsRefPath>(dirfd: Fd, path: P, ft: FileType, mode: Mode, dev: Dev) -> (r: Result<(), Errno>)
        requires valid_dirfd(dirfd.fd_id()), ft.raw == requested_passthrough_mode(), mode.raw == requested_passthrough_mode(),   // [C14.rustix_mknodat.mode_unchanged]
    { unimplemented!() }
    #[verifier::external_body]
    pub fn unlinkat<Fd: AsFd, P: AsRefPath>(dirfd: Fd, path: P, flags: AtFlags) -> (r: Result<(), Errno>)
        requires valid_dirfd(dirfd.fd_id()), flags.bits == requested_passthrough_flags(),  // [C13+C14.rustix_unlinkat.flags_unchanged]
    { unimplemented!() }
    #[verifier::external_body]
    pub fn linkat<Fd1: AsFd, P1: AsRefPath, Fd2: AsFd, P2: AsRefPath>(old_dirfd: Fd1, old_path: P1, new_dirfd: Fd2, new_path: P2, flags: AtFlags) -> (r: Result<(), Errno>)
        requires valid_dirfd(old_dirfd.fd_id()), valid_dirfd(new_dirfd.fd_id()), flags.bits == requested_passthrough_flags(),
            old_dirfd.fd_id() == requested_passthrough_fd(0), new_dirfd.fd_id() == requested_passthrough_fd(1),   // [C14.rustix_linkat.old_new_not_swapped]
            old_path.pview() == requested_path(10), new_path.pview() == requested_path(11),
    { unimplemented!() }
    #[verifier::external_body]
    pub fn symlinkat<P1: AsRefPath, Fd: AsFd, P2: AsRefPath>(target: P1, dirfd: Fd, path: P2) -> (r: Result<(), Errno>)
        requires valid_dirfd(dirfd.fd_id()), target.pview() == requested_path(10), path.pview() == requested_path(11),   // [C14.rustix_symlinkat.target_and_name_not_swapped]
    { unimplemented!() }
    #[verifier::external_body]
    pub fn renameat<Fd1: AsFd, P1: AsRefPath, Fd2: AsFd, P2: AsRefPath>(old_dirfd: Fd1, old_path: P1, new_dirfd: Fd2, new_path: P2) -> (r: Result<(), Errno>)
        requires valid_dirfd(old_dirfd.fd_id()), valid_dirfd(new_dirfd.fd_id()),
            old_dirfd.fd_id() == requested_passthrough_fd(0), new_dirfd.fd_id() == requested_passthrough_fd(1),   // [C14.rustix_renameat.old_new_not_swapped]
            requested_passthrough_flags() == 0,                      // [C10+C14.rustix_renameat.plain_rename_only_when_no_flags_were_requested]
            old_path.pview() == requested_path(10), new_path.pview() == requested_path(11),
    { unimplemented!() }
    #[verifier::external_body]
    pub fn renameat_with<Fd1: AsFd, P1: AsRefPath, Fd2: AsFd, P2: AsRefPath>(old_dirfd: Fd1, old_path: P1, new_dirfd: Fd2, new_path: P2, flags: RustixRenameFlags) -> (r: Result<(), Errno>)
        requires valid_dirfd(old_dirfd.fd_id()), valid_dirfd(new_dirfd.fd_id()), flags.bits == requested_passthrough_flags(),  // [C14.rustix_renameat_with.flags_unchanged]
            old_dirfd.fd_id() == requested_passthrough_fd(0), new_dirfd.fd_id() == requested_passthrough_fd(1),   // [C14.rustix_renameat_with.old_new_not_swapped]
            old_path.pview() == requested_path(10), new_path.pview() == requested_path(11),
    { unimplemented!() }
    #[verifier::external_body]
    pub fn fstatfs<Fd: AsFd>(fd: Fd) -> (r: Result<StatFs, Errno>)
        requires valid_dirfd(fd.fd_id()),
        ensures r matches Ok(s) ==> statfs_of(s, fd.fd_id()),
    { unimplemented!() }
    #[verifier::external_body]
    pub fn statat<Fd: AsFd, P: AsRefPath>(dirfd: Fd, path: P, flags: AtFlags) -> (r: Result<Stat, Errno>)
        requires valid_dirfd(dirfd.fd_id()), stat_flags_ok(flags),       // [C05.rustix_statat.nofollow_noautomount_emptypath]
        ensures r matches Ok(s) ==> stat_of(s, dirfd.fd_id(), path.pview()),
    { unimplemented!() }
    #[verifier::external_body]
    pub fn statx<Fd: AsFd, P: AsRefPath>(dirfd: Fd, path: P, flags: AtFlags, mask: StatxFlags) -> (r: Result<Statx, Errno>)
        requires valid_dirfd(dirfd.fd_id()), stat_flags_ok(flags),       // [C05.rustix_statx.nofollow_noautomount_emptypath]
        ensures r matches Ok(s) ==> statx_of(s, dirfd.fd_id(), path.pview(), mask.bits),
    { unimplemented!() }
}
pub uninterp spec fn requested_passthrough_mode() -> u32;
pub uninterp spec fn requested_passthrough_flags() -> u32;
pub uninterp spec fn requested_passthrough_fd(which: int) -> int;
// ---- the raw openat2(2) call (libc::syscall is variadic; R12 gives it a fixed signature)
#[verifier::external_body]
pub struct CStringK { _p: () }
impl CStringK { pub uninterp spec fn view(&self) -> Seq<u8>; }
//@frozen src/utils/path.rs :: impl ToCString for OsStr fn to_c_string
//@frozen src/utils/path.rs :: impl ToCString for Path fn to_c_string
impl Path {
    /// utils/path.rs `ToCString for Path`: copies the bytes up to the first NUL (not extracted: iterator
    /// chain); the precondition makes "up to the first NUL" mean "all of them" (C04: no silent truncation)
    #[verifier::external_body]
    pub fn to_c_string(&self) -> (r: CStringK)
        requires no_nul(self@)                    // [C04.openat2.path_has_no_interior_nul]
        ensures r@ == self@
    { unimplemented!() }
}
#[verifier::external_body]
pub fn sys_openat2(dirfd: BorrowedFd<'_>, path: &CStringK, how: &syscalls::OpenHow, size: usize) -> (r: i32)
    requires
        valid_dirfd(dirfd.id@),
        resolve_confined(how.resolve),                                  // [C01+C05+C07.openat2.confined_by_in_root_or_beneath]
        how.flags & 0o2000000u64 == 0o2000000u64,                       // [C05+C11.openat2.cloexec]
        how.flags & 0o10000000u64 != 0 || how.flags & 0o400u64 == 0o400u64,   // [C05.openat2.noctty_unless_opath]
    ensures
        r >= 0 ==> fresh_kernel_fd(r as int) && last_openat2(r as int, dirfd.id@, path@, *how),
{ unimplemented!() }
/// the same call with the ledger of raw descriptors made explicit (C11: nothing the kernel returned is dropped unowned)
#[verifier::external_body]
pub fn sys_openat2_ledger(ledger: &mut Ghost<Seq<int>>, dirfd: BorrowedFd<'_>, path: &CStringK, how: &syscalls::OpenHow, size: usize) -> (r: i32)
    requires
        valid_dirfd(dirfd.id@),
    ensures
        r >= 0 ==> fresh_kernel_fd(r as int) && final(ledger)@ == old(ledger)@.push(r as int),
        r < 0 ==> final(ledger)@ == old(ledger)@,
{ unimplemented!() }
impl OwnedFd {
    #[verifier::external_body]
    pub fn from_raw_fd_ledger(fd: i32, ledger: &mut Ghost<Seq<int>>) -> (r: OwnedFd)
        requires fd >= 0, fresh_kernel_fd(fd as int), old(ledger)@.len() > 0, old(ledger)@.last() == fd as int,
        ensures final(ledger)@ == old(ledger)@.drop_last(),
    { unimplemented!() }
}
// ---- errno (thread-local) around the raw openat2 call (variant __errno): `cell` is Some(e) while errno still holds the error e
// of the failed call; any other libc call in between may overwrite it
pub uninterp spec fn openat2_failure() -> int;
#[verifier::external_body]
pub fn sys_openat2_errno(cell: &mut Ghost<Option<int>>, dirfd: BorrowedFd<'_>, path: &CStringK, how: &syscalls::OpenHow, size: usize) -> (r: i32)
    requires valid_dirfd(dirfd.id@),
    ensures r >= 0 ==> fresh_kernel_fd(r as int), r < 0 ==> final(cell)@ == Some(openat2_failure()),
        i32::MIN <= openat2_failure() <= i32::MAX,
{ unimplemented!() }
impl IOError {
    #[verifier::external_body]
    pub fn last_os_error_errno(cell: &mut Ghost<Option<int>>) -> (r: IOError)
        ensures r.raw() is Some, final(cell)@ == old(cell)@, old(cell)@ matches Some(e) ==> r.raw() == Some(e as i32),
    { unimplemented!() }
}
/// `FrozenFd::from(fd)` reads the descriptor's path from /proc/thread-self/fd/<n> for the error text: when that fails errno is overwritten
#[verifier::external_body]
pub fn frozen_fd_from_errno(fd: BorrowedFd<'_>, cell: &mut Ghost<Option<int>>) -> (r: FrozenFd)
    ensures final(cell)@ == None::<int>,
{ unimplemented!() }
pub uninterp spec fn last_openat2(fd: int, dirfd: int, path: Seq<u8>, how: syscalls::OpenHow) -> bool;
/// A4: what the kernel guarantees about the object openat2(dirfd, path, how) returned
pub open spec fn a4_facts(id: int, d: int, p: Seq<u8>, how: syscalls::OpenHow) -> bool {
    kflags64(id) == how.flags
    && (how.flags & 0o2000000u64 == 0o2000000u64 ==> has(kflags(id), libc::O_CLOEXEC) && cloexec(id))
    && resolve_bits_of(id) == how.resolve
    && (how.resolve & libc::RESOLVE_IN_ROOT == libc::RESOLVE_IN_ROOT && lineage(d) ==> lineage(id) && witnessed(id))
    && (beneath_noxdev(how.resolve) ==> mnt_of(id) == mnt_of(d))
    && resolved_from(id, d, p, how.flags & (libc::O_NOFOLLOW as u64) != 0)
}
impl IOError {
    /// A7: after a failing syscall errno is set
    #[verifier::external_body]
    pub fn last_os_error() -> (r: IOError) ensures r.raw() is Some { unimplemented!() }
}
impl OwnedFd {
    /// taking ownership of a raw number: only for a descriptor the kernel has just handed to us (C11)
    #[verifier::external_body]
    pub fn from_raw_fd(fd: i32) -> (r: OwnedFd)
        requires fd >= 0, fresh_kernel_fd(fd as int)                     // [C11.from_raw_fd.only_a_descriptor_the_kernel_just_returned]
        ensures raw_of(r.id()) == fd as int,
            forall|d: int, p: Seq<u8>, how: syscalls::OpenHow| #[trigger] last_openat2(fd as int, d, p, how) ==> a4_facts(r.id(), d, p, how),
    { unimplemented!() }
}
//@include prelude/mountflags.rs
pub mod rustix_mount {
    use super::*;
    #[verifier::external_body]
    pub fn fsopen(fstype: &str, flags: FsOpenFlags) -> (r: Result<OwnedFd, Errno>)
        requires flags.bits & 1u32 == 1u32,                        // [C05+C11.rustix_fsopen.cloexec]
        ensures r matches Ok(fd) ==> cloexec(fd.id()),
    { unimplemented!() }
    #[verifier::external_body]
    pub fn fsconfig_set_string<Fd: AsFd>(sfd: Fd, key: &str, value: &str) -> (r: Result<(), Errno>)
        requires valid_dirfd(sfd.fd_id()),
    { unimplemented!() }
    #[verifier::external_body]
    pub fn fsconfig_create<Fd: AsFd>(sfd: Fd) -> (r: Result<(), Errno>)
        requires valid_dirfd(sfd.fd_id()),
    { unimplemented!() }
    #[verifier::external_body]
    pub fn fsmount<Fd: AsFd>(sfd: Fd, flags: FsMountFlags, attrs: MountAttrFlags) -> (r: Result<OwnedFd, Errno>)
        requires valid_dirfd(sfd.fd_id()), flags.bits & 1u32 == 1u32,      // [C05+C11.rustix_fsmount.cloexec]
        ensures r matches Ok(fd) ==> cloexec(fd.id()), r matches Ok(fd) ==> private_mount(fd.id()) && !derived_from_host_mount(fd.id()),
    { unimplemented!() }
    #[verifier::external_body]
    pub fn open_tree<Fd: AsFd, P: AsRefPath>(dirfd: Fd, path: P, flags: OpenTreeFlags) -> (r: Result<OwnedFd, Errno>)
        requires valid_dirfd(dirfd.fd_id()), flags.bits & 0o2000000u32 == 0o2000000u32,      // [C05+C11.rustix_open_tree.cloexec]
        ensures r matches Ok(fd) ==> cloexec(fd.id()), r matches Ok(fd) ==> (flags.bits & 1u32 == 1u32 ==> private_mount(fd.id())),   // OPEN_TREE_CLONE
    { unimplemented!() }
}
