// ---- prelude/shims.rs: generic conversion bounds with a spec view (R2) ---------------------
pub mod shim {
    use super::*;
    /// stands for the bound `Into<OpenFlags>`
    pub trait IntoOpenFlags: Sized { spec fn flag_bits(&self) -> i32; fn into(self) -> (r: OpenFlags) ensures r.bits == self.flag_bits(); }
    impl IntoOpenFlags for OpenFlags { open spec fn flag_bits(&self) -> i32 { self.bits } fn into(self) -> (r: OpenFlags) { self } }
    /// stands for the bound `Into<OwnedFd>`
    pub trait IntoOwnedFd: Sized { spec fn into_id(&self) -> int; fn into(self) -> (r: OwnedFd) ensures r.id() == self.into_id(); }
    impl IntoOwnedFd for OwnedFd { open spec fn into_id(&self) -> int { self.id() } fn into(self) -> (r: OwnedFd) { self } }
    impl IntoOwnedFd for File { open spec fn into_id(&self) -> int { self.fd.id() } fn into(self) -> (r: OwnedFd) { self.fd } }
}
