// ---- prelude/flags.rs: models of the bitflags! types and libc constants (R12) ----------
// x86_64-linux values; cross-checked against the platform headers by tools/constcheck.py.
pub mod libc {
    pub type mode_t = u32;
    pub type c_int = i32;
    pub const ENOENT: i32 = 2;
    pub const EPERM: i32 = 1;
    pub const ESRCH: i32 = 3;
    pub const EINTR: i32 = 4;
    pub const EIO: i32 = 5;
    pub const ENXIO: i32 = 6;
    pub const E2BIG: i32 = 7;
    pub const ENOMEM: i32 = 12;
    pub const EFAULT: i32 = 14;
    pub const EBUSY: i32 = 16;
    pub const ENODEV: i32 = 19;
    pub const EISDIR: i32 = 21;
    pub const ENFILE: i32 = 23;
    pub const EMFILE: i32 = 24;
    pub const ENOTTY: i32 = 25;
    pub const ETXTBSY: i32 = 26;
    pub const EFBIG: i32 = 27;
    pub const ENOSPC: i32 = 28;
    pub const ESPIPE: i32 = 29;
    pub const EROFS: i32 = 30;
    pub const EMLINK: i32 = 31;
    pub const EPIPE: i32 = 32;
    pub const ERANGE: i32 = 34;
    pub const ENOTEMPTY: i32 = 39;
    pub const EOVERFLOW: i32 = 75;
    pub const EOPNOTSUPP: i32 = 95;
    pub const ENOTSUP: i32 = 95;
    pub const ESTALE: i32 = 116;
    pub const EDQUOT: i32 = 122;
    pub const EBADF: i32 = 9;
    pub const EAGAIN: i32 = 11;
    pub const EACCES: i32 = 13;
    pub const EEXIST: i32 = 17;
    pub const EXDEV: i32 = 18;
    pub const ENOTDIR: i32 = 20;
    pub const EINVAL: i32 = 22;
    pub const ENOSYS: i32 = 38;
    pub const ELOOP: i32 = 40;
    pub const ENAMETOOLONG: i32 = 36;
    pub const AT_FDCWD: i32 = -100;
    pub const O_ACCMODE: i32 = 0o3;
    pub const O_RDONLY: i32 = 0;
    pub const O_WRONLY: i32 = 1;
    pub const O_RDWR: i32 = 2;
    pub const O_CREAT: i32 = 0o100;
    pub const O_EXCL: i32 = 0o200;
    pub const O_NOCTTY: i32 = 0o400;
    pub const O_TRUNC: i32 = 0o1000;
    pub const O_APPEND: i32 = 0o2000;
    pub const O_NONBLOCK: i32 = 0o4000;
    pub const O_DIRECTORY: i32 = 0o200000;
    pub const O_NOFOLLOW: i32 = 0o400000;
    pub const O_CLOEXEC: i32 = 0o2000000;
    pub const O_PATH: i32 = 0o10000000;
    pub const O_TMPFILE: i32 = 0o20200000;
    pub const S_IFMT: u32 = 0o170000;
    pub const S_IFSOCK: u32 = 0o140000;
    pub const S_IFLNK: u32 = 0o120000;
    pub const S_IFREG: u32 = 0o100000;
    pub const S_IFBLK: u32 = 0o060000;
    pub const S_IFDIR: u32 = 0o040000;
    pub const S_IFCHR: u32 = 0o020000;
    pub const S_IFIFO: u32 = 0o010000;
    pub const S_ISVTX: u32 = 0o1000;
    pub const S_IWOTH: u32 = 0o2;
    pub const RESOLVE_NO_XDEV: u64 = 0x01;
    pub const RESOLVE_NO_MAGICLINKS: u64 = 0x02;
    pub const RESOLVE_NO_SYMLINKS: u64 = 0x04;
    pub const RESOLVE_BENEATH: u64 = 0x08;
    pub const RESOLVE_IN_ROOT: u64 = 0x10;
    pub const PROC_SUPER_MAGIC: i64 = 0x9fa0;
    pub const PATH_MAX: i32 = 4096;
    pub const SYS_openat2: i64 = 437;
    pub const RENAME_NOREPLACE: u32 = 1;
    pub const RENAME_EXCHANGE: u32 = 2;
    pub const RENAME_WHITEOUT: u32 = 4;
}

pub mod bitlem {
    use vstd::prelude::*;
    pub broadcast proof fn lemma_or_contains_r(a: i32, b: i32) ensures #[trigger] ((a | b) & b) == b
    { assert(((a | b) & b) == b) by (bit_vector); }
    pub broadcast proof fn lemma_or_contains_l(a: i32, b: i32) ensures #[trigger] ((a | b) & a) == a
    { assert(((a | b) & a) == a) by (bit_vector); }
    pub broadcast proof fn lemma_or_mono_l(a: i32, b: i32, f: i32)
        requires a & f == f ensures #[trigger] ((a | b) & f) == f
    { assert(a & f == f ==> ((a | b) & f) == f) by (bit_vector); }
    pub broadcast proof fn lemma_or_mono_r(a: i32, b: i32, f: i32)
        requires b & f == f ensures #[trigger] ((a | b) & f) == f
    { assert(b & f == f ==> ((a | b) & f) == f) by (bit_vector); }
    pub broadcast proof fn lemma_or_contains_r_u32(a: u32, b: u32) ensures #[trigger] ((a | b) & b) == b
    { assert(((a | b) & b) == b) by (bit_vector); }
    pub broadcast proof fn lemma_or_contains_l_u32(a: u32, b: u32) ensures #[trigger] ((a | b) & a) == a
    { assert(((a | b) & a) == a) by (bit_vector); }
    pub broadcast proof fn lemma_or_mono_l_u32(a: u32, b: u32, f: u32)
        requires a & f == f ensures #[trigger] ((a | b) & f) == f
    { assert(a & f == f ==> ((a | b) & f) == f) by (bit_vector); }
    pub broadcast proof fn lemma_or_mono_r_u32(a: u32, b: u32, f: u32)
        requires b & f == f ensures #[trigger] ((a | b) & f) == f
    { assert(b & f == f ==> ((a | b) & f) == f) by (bit_vector); }
    pub broadcast proof fn lemma_or_contains_r_u64(a: u64, b: u64) ensures #[trigger] ((a | b) & b) == b
    { assert(((a | b) & b) == b) by (bit_vector); }
    pub broadcast proof fn lemma_or_contains_l_u64(a: u64, b: u64) ensures #[trigger] ((a | b) & a) == a
    { assert(((a | b) & a) == a) by (bit_vector); }
    pub broadcast proof fn lemma_or_mono_l_u64(a: u64, b: u64, f: u64)
        requires a & f == f ensures #[trigger] ((a | b) & f) == f
    { assert(a & f == f ==> ((a | b) & f) == f) by (bit_vector); }
    pub broadcast proof fn lemma_or_mono_r_u64(a: u64, b: u64, f: u64)
        requires b & f == f ensures #[trigger] ((a | b) & f) == f
    { assert(b & f == f ==> ((a | b) & f) == f) by (bit_vector); }
    /// for a single-bit mask "some bit of c is set" and "every bit of c is set" are the same test (contains <-> intersects)
    pub broadcast proof fn lemma_single_bit_i32(x: i32, c: i32)
        requires c > 0, c & sub(c, 1) == 0
        ensures (#[trigger] (x & c) != 0) == (x & c == c)
    { assert(c > 0 && c & sub(c, 1) == 0 ==> (((x & c) != 0) == (x & c == c))) by (bit_vector); }
    pub broadcast proof fn lemma_single_bit_o_path(x: i32) ensures (#[trigger] (x & 0o10000000i32) != 0) == (x & 0o10000000i32 == 0o10000000i32)
    { assert(((x & 0o10000000i32) != 0) == (x & 0o10000000i32 == 0o10000000i32)) by (bit_vector); }
    pub broadcast proof fn lemma_single_bit_o_nofollow(x: i32) ensures (#[trigger] (x & 0o400000i32) != 0) == (x & 0o400000i32 == 0o400000i32)
    { assert(((x & 0o400000i32) != 0) == (x & 0o400000i32 == 0o400000i32)) by (bit_vector); }
    pub broadcast proof fn lemma_single_bit_o_directory(x: i32) ensures (#[trigger] (x & 0o200000i32) != 0) == (x & 0o200000i32 == 0o200000i32)
    { assert(((x & 0o200000i32) != 0) == (x & 0o200000i32 == 0o200000i32)) by (bit_vector); }
    pub broadcast proof fn lemma_single_bit_o_creat(x: i32) ensures (#[trigger] (x & 0o100i32) != 0) == (x & 0o100i32 == 0o100i32)
    { assert(((x & 0o100i32) != 0) == (x & 0o100i32 == 0o100i32)) by (bit_vector); }
    pub broadcast proof fn lemma_single_bit_o_excl(x: i32) ensures (#[trigger] (x & 0o200i32) != 0) == (x & 0o200i32 == 0o200i32)
    { assert(((x & 0o200i32) != 0) == (x & 0o200i32 == 0o200i32)) by (bit_vector); }
    pub broadcast proof fn lemma_single_bit_o_cloexec(x: i32) ensures (#[trigger] (x & 0o2000000i32) != 0) == (x & 0o2000000i32 == 0o2000000i32)
    { assert(((x & 0o2000000i32) != 0) == (x & 0o2000000i32 == 0o2000000i32)) by (bit_vector); }
    pub broadcast proof fn lemma_single_bit_o_noctty(x: i32) ensures (#[trigger] (x & 0o400i32) != 0) == (x & 0o400i32 == 0o400i32)
    { assert(((x & 0o400i32) != 0) == (x & 0o400i32 == 0o400i32)) by (bit_vector); }
    /// removing bits: xor with the masked part is the same as and-not
    pub broadcast proof fn lemma_xor_mask_u32(m: u32, k: u32) ensures #[trigger] (m ^ (m & k)) == m & !k
    { assert((m ^ (m & k)) == m & !k) by (bit_vector); }
    /// `(S_IFxxx | (mode & !S_IFMT))` has exactly the type bits S_IFxxx and the permission bits of mode
    pub broadcast proof fn lemma_fmt_or_type(f: u32, m: u32)
        requires f & super::libc::S_IFMT == f
        ensures #[trigger] ((f | (m & !super::libc::S_IFMT)) & super::libc::S_IFMT) == f
    {
        let k = super::libc::S_IFMT;
        assert(f & k == f ==> ((f | (m & !k)) & k) == f) by (bit_vector);
    }
    pub broadcast proof fn lemma_fmt_or_perm(f: u32, m: u32)
        requires f & super::libc::S_IFMT == f
        ensures #[trigger] ((f | (m & !super::libc::S_IFMT)) & !super::libc::S_IFMT) == m & !super::libc::S_IFMT
    {
        let k = super::libc::S_IFMT;
        assert(f & k == f ==> ((f | (m & !k)) & !k) == m & !k) by (bit_vector);
    }
    pub proof fn lemma_ifmt_consts()
        ensures
            super::libc::S_IFREG & super::libc::S_IFMT == super::libc::S_IFREG,
            super::libc::S_IFIFO & super::libc::S_IFMT == super::libc::S_IFIFO,
            super::libc::S_IFCHR & super::libc::S_IFMT == super::libc::S_IFCHR,
            super::libc::S_IFBLK & super::libc::S_IFMT == super::libc::S_IFBLK,
    {
        assert(0o100000u32 & 0o170000u32 == 0o100000u32) by (bit_vector);
        assert(0o010000u32 & 0o170000u32 == 0o010000u32) by (bit_vector);
        assert(0o020000u32 & 0o170000u32 == 0o020000u32) by (bit_vector);
        assert(0o060000u32 & 0o170000u32 == 0o060000u32) by (bit_vector);
    }
    pub proof fn lemma_has_mono(k: i32, f: i32, g: i32)
        requires k & f == f, f & g == g
        ensures k & g == g
    { assert((k & f == f && f & g == g) ==> k & g == g) by (bit_vector); }
}
//@broadcast bitlem::lemma_single_bit_o_path bitlem::lemma_single_bit_o_nofollow bitlem::lemma_single_bit_o_directory bitlem::lemma_single_bit_o_creat bitlem::lemma_single_bit_o_excl bitlem::lemma_single_bit_o_cloexec bitlem::lemma_single_bit_o_noctty bitlem::lemma_single_bit_i32 bitlem::lemma_xor_mask_u32 bitlem::lemma_or_contains_r_u32 bitlem::lemma_or_contains_l_u32 bitlem::lemma_or_mono_l_u32 bitlem::lemma_or_mono_r_u32 bitlem::lemma_or_contains_r_u64 bitlem::lemma_or_contains_l_u64 bitlem::lemma_or_mono_l_u64 bitlem::lemma_or_mono_r_u64 bitlem::lemma_fmt_or_type bitlem::lemma_fmt_or_perm bitlem::lemma_or_contains_r bitlem::lemma_or_contains_l bitlem::lemma_or_mono_l bitlem::lemma_or_mono_r

/// `bits` has every bit of `f`
pub open spec fn has(bits: i32, f: i32) -> bool { bits & f == f }

#[derive(Clone, Copy, PartialEq, Eq, Structural)]
pub struct OpenFlags { pub bits: i32 }
impl OpenFlags {
    pub const O_RDWR: OpenFlags = OpenFlags { bits: libc::O_RDWR };
    pub const O_RDONLY: OpenFlags = OpenFlags { bits: libc::O_RDONLY };
    pub const O_WRONLY: OpenFlags = OpenFlags { bits: libc::O_WRONLY };
    pub const O_PATH: OpenFlags = OpenFlags { bits: libc::O_PATH };
    pub const O_CLOEXEC: OpenFlags = OpenFlags { bits: libc::O_CLOEXEC };
    pub const O_NOFOLLOW: OpenFlags = OpenFlags { bits: libc::O_NOFOLLOW };
    pub const O_DIRECTORY: OpenFlags = OpenFlags { bits: libc::O_DIRECTORY };
    pub const O_NOCTTY: OpenFlags = OpenFlags { bits: libc::O_NOCTTY };
    pub const O_TMPFILE: OpenFlags = OpenFlags { bits: libc::O_TMPFILE };
    pub const O_CREAT: OpenFlags = OpenFlags { bits: libc::O_CREAT };
    pub const O_EXCL: OpenFlags = OpenFlags { bits: libc::O_EXCL };
    pub const O_TRUNC: OpenFlags = OpenFlags { bits: libc::O_TRUNC };
    pub const O_APPEND: OpenFlags = OpenFlags { bits: libc::O_APPEND };
    pub fn bits(&self) -> (r: i32) ensures r == self.bits { self.bits }
    pub fn from_bits_retain(b: i32) -> (r: OpenFlags) ensures r.bits == b { OpenFlags { bits: b } }
    pub fn empty() -> (r: OpenFlags) ensures r.bits == 0 { OpenFlags { bits: 0 } }
    pub fn is_empty(&self) -> (r: bool) ensures r == (self.bits == 0) { self.bits == 0 }
    pub fn insert(&mut self, o: OpenFlags) ensures final(self).bits == old(self).bits | o.bits { self.bits = self.bits | o.bits; }
    pub fn remove(&mut self, o: OpenFlags) ensures final(self).bits == old(self).bits & !o.bits { self.bits = self.bits & !o.bits; }
    pub fn contains(&self, o: OpenFlags) -> (r: bool) ensures r == (self.bits & o.bits == o.bits) { self.bits & o.bits == o.bits }
    pub fn intersects(&self, o: OpenFlags) -> (r: bool) ensures r == (self.bits & o.bits != 0) { self.bits & o.bits != 0 }
    pub fn intersection(self, o: OpenFlags) -> (r: OpenFlags) ensures r.bits == self.bits & o.bits { OpenFlags { bits: self.bits & o.bits } }
}
impl vstd::std_specs::ops::BitOrSpecImpl for OpenFlags {
    open spec fn obeys_bitor_spec() -> bool { true }
    open spec fn bitor_req(self, o: OpenFlags) -> bool { true }
    open spec fn bitor_spec(self, o: OpenFlags) -> OpenFlags { OpenFlags { bits: self.bits | o.bits } }
}
impl core::ops::BitOr for OpenFlags {
    type Output = OpenFlags;
    fn bitor(self, o: OpenFlags) -> (r: OpenFlags) { OpenFlags { bits: self.bits | o.bits } }
}
// the other bitflags operators a refactoring may use instead of insert/remove/contains (same meaning as in bitflags 2;
// OpenFlags declares `const _ = !0`, so `!F` keeps every bit)
impl vstd::std_specs::ops::BitAndSpecImpl for OpenFlags {
    open spec fn obeys_bitand_spec() -> bool { true }
    open spec fn bitand_req(self, o: OpenFlags) -> bool { true }
    open spec fn bitand_spec(self, o: OpenFlags) -> OpenFlags { OpenFlags { bits: self.bits & o.bits } }
}
impl core::ops::BitAnd for OpenFlags {
    type Output = OpenFlags;
    fn bitand(self, o: OpenFlags) -> (r: OpenFlags) { OpenFlags { bits: self.bits & o.bits } }
}
impl vstd::std_specs::ops::NotSpecImpl for OpenFlags {
    open spec fn obeys_not_spec() -> bool { true }
    open spec fn not_req(self) -> bool { true }
    open spec fn not_spec(self) -> OpenFlags { OpenFlags { bits: !self.bits } }
}
impl core::ops::Not for OpenFlags {
    type Output = OpenFlags;
    fn not(self) -> (r: OpenFlags) { OpenFlags { bits: !self.bits } }
}
impl vstd::std_specs::ops::BitOrAssignSpecImpl for OpenFlags {
    open spec fn obeys_bitor_assign_spec() -> bool { true }
    open spec fn bitor_assign_req(&self, o: OpenFlags) -> bool { true }
    open spec fn bitor_assign_spec(&self, o: OpenFlags) -> &OpenFlags { &OpenFlags { bits: self.bits | o.bits } }
}
impl core::ops::BitOrAssign for OpenFlags {
    fn bitor_assign(&mut self, o: OpenFlags) { self.bits = self.bits | o.bits; }
}
impl vstd::std_specs::ops::BitAndAssignSpecImpl for OpenFlags {
    open spec fn obeys_bitand_assign_spec() -> bool { true }
    open spec fn bitand_assign_req(&self, o: OpenFlags) -> bool { true }
    open spec fn bitand_assign_spec(&self, o: OpenFlags) -> &OpenFlags { &OpenFlags { bits: self.bits & o.bits } }
}
impl core::ops::BitAndAssign for OpenFlags {
    fn bitand_assign(&mut self, o: OpenFlags) { self.bits = self.bits & o.bits; }
}

#[derive(Clone, Copy)]
pub struct AtFlags { pub bits: u32 }
impl AtFlags {
    pub const REMOVEDIR: AtFlags = AtFlags { bits: 0x200 };
    pub const SYMLINK_NOFOLLOW: AtFlags = AtFlags { bits: 0x100 };
    pub const NO_AUTOMOUNT: AtFlags = AtFlags { bits: 0x800 };
    pub const EMPTY_PATH: AtFlags = AtFlags { bits: 0x1000 };
    pub fn empty() -> (r: AtFlags) ensures r.bits == 0 { AtFlags { bits: 0 } }
}
impl vstd::std_specs::ops::BitOrSpecImpl for AtFlags {
    open spec fn obeys_bitor_spec() -> bool { true }
    open spec fn bitor_req(self, o: AtFlags) -> bool { true }
    open spec fn bitor_spec(self, o: AtFlags) -> AtFlags { AtFlags { bits: self.bits | o.bits } }
}
impl core::ops::BitOr for AtFlags {
    type Output = AtFlags;
    fn bitor(self, o: AtFlags) -> (r: AtFlags) { AtFlags { bits: self.bits | o.bits } }
}

#[derive(Clone, Copy)]
pub struct RenameFlags { pub bits: u32 }
impl RenameFlags {
    pub const RENAME_EXCHANGE: RenameFlags = RenameFlags { bits: libc::RENAME_EXCHANGE };
    pub const RENAME_NOREPLACE: RenameFlags = RenameFlags { bits: libc::RENAME_NOREPLACE };
    pub const RENAME_WHITEOUT: RenameFlags = RenameFlags { bits: libc::RENAME_WHITEOUT };
    pub fn from_bits_retain(b: u32) -> (r: RenameFlags) ensures r.bits == b { RenameFlags { bits: b } }
    pub fn is_empty(&self) -> (r: bool) ensures r == (self.bits == 0) { self.bits == 0 }
    pub fn bits(&self) -> (r: u32) ensures r == self.bits { self.bits }
}

#[derive(Clone, Copy)]
pub struct ResolverFlags { pub bits: u64 }
impl ResolverFlags {
    pub const NO_SYMLINKS: ResolverFlags = ResolverFlags { bits: libc::RESOLVE_NO_SYMLINKS };
    pub fn empty() -> (r: ResolverFlags) ensures r.bits == 0 { ResolverFlags { bits: 0 } }
    pub open spec fn contains_spec(&self, o: ResolverFlags) -> bool { self.bits & o.bits == o.bits }
    pub fn contains(&self, o: ResolverFlags) -> (r: bool) ensures r == self.contains_spec(o) { self.bits & o.bits == o.bits }
    pub fn bits(&self) -> (r: u64) ensures r == self.bits { self.bits }
}
