// ---- prelude/errbase.rs: Cow / io::Error / Errno models ---------------------------------
#[verifier::external_body]
pub struct Cow { _p: () }
impl From<&'static str> for Cow { #[verifier::external_body] fn from(s: &'static str) -> Cow { unimplemented!() } }
impl From<String> for Cow { #[verifier::external_body] fn from(s: String) -> Cow { unimplemented!() } }
/// R5: `format!(..)` message text is dropped; the value is an opaque String
#[verifier::external_body]
pub fn fmt_dropped() -> String { unimplemented!() }

#[verifier::external_body]
pub struct IOError { _p: () }
impl IOError {
    pub uninterp spec fn raw(&self) -> Option<i32>;
    #[verifier::external_body]
    pub fn raw_os_error(&self) -> (r: Option<i32>) ensures r == self.raw() { unimplemented!() }
    #[verifier::external_body]
    pub fn from_raw_os_error(e: i32) -> (r: IOError) ensures r.raw() == Some(e) { unimplemented!() }
}

#[derive(PartialEq, Eq, Clone, Copy, Structural)]
pub struct Errno { pub raw: i32 }
impl Errno {
    pub const EXIST: Errno = Errno { raw: libc::EEXIST };
    pub const BADF: Errno = Errno { raw: libc::EBADF };
    pub const NAMETOOLONG: Errno = Errno { raw: 36 };
    pub const NOSYS: Errno = Errno { raw: libc::ENOSYS };
    pub const INVAL: Errno = Errno { raw: libc::EINVAL };
    pub const AGAIN: Errno = Errno { raw: libc::EAGAIN };
    pub const XDEV: Errno = Errno { raw: libc::EXDEV };
    pub const NOENT: Errno = Errno { raw: libc::ENOENT };
    pub fn raw_os_error(self) -> (r: i32) ensures r == self.raw { self.raw }
    pub fn from_raw_os_error(e: i32) -> (r: Errno) ensures r.raw == e { Errno { raw: e } }
}
impl vstd::std_specs::convert::FromSpecImpl<Errno> for IOError {
    open spec fn obeys_from_spec() -> bool { false }
    uninterp spec fn from_spec(e: Errno) -> IOError;
}
impl From<Errno> for IOError {
    #[verifier::external_body]
    fn from(e: Errno) -> (r: IOError) ensures r.raw() == Some(e.raw) { unimplemented!() }
}
