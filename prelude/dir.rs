// ---- prelude/dir.rs: rustix::fs::Dir iteration (A8: entry names are single components) --
#[verifier::external_body]
pub struct CStr { _p: () }
impl CStr {
    pub uninterp spec fn view(&self) -> Seq<u8>;
    #[verifier::external_body]
    pub fn to_bytes(&self) -> (r: &[u8]) ensures r@ == self@ { unimplemented!() }
}
#[verifier::external_body]
pub struct DirEntry { _p: () }
impl DirEntry {
    pub uninterp spec fn name(&self) -> Seq<u8>;
    #[verifier::external_body]
    pub fn file_name(&self) -> (r: &CStr) ensures r@ == self.name() { unimplemented!() }
}
#[verifier::external_body]
pub struct Dir { _p: () }
/// R6 (dir_iter): `Dir.filter(|res| !matches!(name, Ok(b".") | Ok(b".."))).peekable()`
#[verifier::external_body]
pub struct DirIterNoDots { _p: () }
impl Dir {
    /// not a path-taking call: re-opens "." relative to `fd` inside rustix (unverified, listed)
    #[verifier::external_body]
    pub fn read_from<Fd: AsFd>(fd: Fd) -> (r: Result<Dir, Errno>) { unimplemented!() }
    #[verifier::external_body]
    pub fn filter_dots_peekable(self) -> (r: DirIterNoDots) { unimplemented!() }
}
impl DirIterNoDots {
    #[verifier::external_body]
    pub fn peek(&mut self) -> (r: Option<&Result<DirEntry, Errno>>) { unimplemented!() }
    /// A8 + the filter: every yielded name is a single component other than "." / ".."
    /// the iterator has returned None
    pub uninterp spec fn exhausted(&self) -> bool;
    #[verifier::external_body]
    pub fn next(&mut self) -> (r: Option<Result<DirEntry, Errno>>)
        ensures r matches Some(Ok(d)) ==> entry_name(d.name()),
            r is None ==> final(self).exhausted(),
            // A8b (rustix 0.38 fs/dir.rs): getdents64 failing with ENOENT (directory deleted under the scan) ends
            // the stream instead of yielding an error
            r matches Some(Err(e)) ==> e.raw != libc::ENOENT,
    { unimplemented!() }
}
pub fn into_iter_shim<T>(t: T) -> (r: T) ensures r == t { t }
