// ---- prelude/mem.rs: memchr crate and slice helpers (A7) --------------------------------
pub mod memchr {
    use super::*;
    #[verifier::external_body]
    pub fn memchr(n: u8, h: &[u8]) -> (r: Option<usize>)
        ensures
            match r {
                Some(i) => i < h@.len() && h@[i as int] == n && forall|j: int| 0 <= j < i ==> h@[j] != n,
                None => forall|j: int| 0 <= j < h@.len() ==> h@[j] != n,
            }
    { unimplemented!() }
    #[verifier::external_body]
    pub fn memrchr(n: u8, h: &[u8]) -> (r: Option<usize>)
        ensures
            match r {
                Some(i) => i < h@.len() && h@[i as int] == n && forall|j: int| i < j < h@.len() ==> h@[j] != n,
                None => forall|j: int| 0 <= j < h@.len() ==> h@[j] != n,
            }
    { unimplemented!() }
}

/// R3: `&b"lit"[..]` — an array literal viewed as a slice
#[verifier::external_body]
pub fn slice_of<const N: usize>(a: &'static [u8; N]) -> (r: &'static [u8]) ensures r@ == a@ { a }

/// R6 (rposition): `bytes.iter().rposition(|c| *c != X)` — last index whose byte differs from x
pub fn rposition_ne(s: &[u8], x: u8) -> (r: Option<usize>)
    ensures
        match r {
            Some(i) => i < s@.len() && s@[i as int] != x && forall|j: int| i < j < s@.len() ==> s@[j] == x,
            None => forall|j: int| 0 <= j < s@.len() ==> s@[j] == x,
        }
{
    let mut i: usize = s.len();
    while i > 0
        invariant i <= s.len(), forall|j: int| i <= j < s@.len() ==> s@[j] == x,
        decreases i
    {
        i -= 1;
        if s[i] != x { return Some(i); }
    }
    None
}
