// ---- prelude/symlink_stack_proto.rs: the protocol between the emulated walk and the symlink stack --------------
// R = the components still to be walked; S = the stack.  Invariant: the recorded parts of the stack, innermost link first,
// are exactly the non-trivial ones among the first m components of R (the ones that came from link bodies), and an entry
// without recorded parts can only be on top while the next component is a trivial one ("" / ".").  Under it pop_part
// and swap_link never report a broken stack (lemma_pop_part, lemma_swap_link; both proved here).
use vstd::seq_lib::*;
// ---------------- protocol
pub open spec fn ntf(r: Seq<Seq<u8>>) -> Seq<Seq<u8>> { r.filter(|c: Seq<u8>| nontrivial(c)) }
pub open spec fn concat_parts<F>(s: Seq<EntryV<F>>) -> Seq<Seq<u8>>
    decreases s.len()
{
    if s.len() == 0 { Seq::empty() } else { s[s.len() - 1].parts + concat_parts(s.drop_last()) }
}
pub open spec fn proto_inv<F>(s: Seq<EntryV<F>>, r: Seq<Seq<u8>>, m: int) -> bool {
    &&& 0 <= m <= r.len()
    &&& concat_parts(s) == ntf(r.take(m))
    &&& (s.len() > 0 && s[s.len() - 1].parts.len() == 0 ==> m >= 1 && !nontrivial(r[0]))
}
pub open spec fn norm(c0: Seq<u8>) -> Seq<u8> { if c0.len() == 0 { DOTC() } else { c0 } }
pub open spec fn dec(m: int) -> int { if m >= 1 { m - 1 } else { 0 } }

pub proof fn lemma_strip_concat<F>(s: Seq<EntryV<F>>)
    ensures concat_parts(strip_tail(s)) == concat_parts(s),
        strip_tail(s).len() > 0 ==> strip_tail(s)[strip_tail(s).len() - 1].parts.len() > 0,
    decreases s.len()
{
    if s.len() > 0 && s[s.len() - 1].parts.len() == 0 {
        lemma_strip_concat(s.drop_last());
        assert(s[s.len() - 1].parts + concat_parts(s.drop_last()) =~= concat_parts(s.drop_last()));
    }
}
pub proof fn lemma_ntf_single(x: Seq<u8>)
    ensures ntf(seq![x]) == (if nontrivial(x) { seq![x] } else { Seq::<Seq<u8>>::empty() })
{
    reveal_with_fuel(Seq::filter, 3);
    assert(seq![x].drop_last() =~= Seq::<Seq<u8>>::empty());
}
pub proof fn lemma_ntf_add(a: Seq<Seq<u8>>, b: Seq<Seq<u8>>)
    ensures ntf(a + b) == ntf(a) + ntf(b)
{
    Seq::filter_distributes_over_add(a, b, |c: Seq<u8>| nontrivial(c));
}
pub proof fn lemma_ntf_take_step(r: Seq<Seq<u8>>, m: int)
    requires 1 <= m <= r.len()
    ensures ntf(r.take(m)) == (if nontrivial(r[0]) { seq![r[0]] } else { Seq::<Seq<u8>>::empty() }) + ntf(r.skip(1).take(m - 1))
{
    assert(r.take(m) =~= seq![r[0]] + r.skip(1).take(m - 1));
    lemma_ntf_add(seq![r[0]], r.skip(1).take(m - 1));
    lemma_ntf_single(r[0]);
}
pub proof fn lemma_ntf_empty_first(r: Seq<Seq<u8>>)
    requires r.len() > 0, ntf(r).len() == 0
    ensures !nontrivial(r[0])
{
    assert(r =~= seq![r[0]] + r.skip(1));
    lemma_ntf_add(seq![r[0]], r.skip(1));
    lemma_ntf_single(r[0]);
}
pub proof fn lemma_concat_update_top<F>(s: Seq<EntryV<F>>, e: EntryV<F>)
    requires s.len() > 0
    ensures concat_parts(s.update(s.len() - 1, e)) == e.parts + concat_parts(s.drop_last())
{
    let s2 = s.update(s.len() - 1, e);
    assert(s2.drop_last() =~= s.drop_last());
}
pub proof fn lemma_concat_push<F>(s: Seq<EntryV<F>>, e: EntryV<F>)
    ensures concat_parts(s.push(e)) == e.parts + concat_parts(s)
{
    assert(s.push(e).drop_last() =~= s);
}
/// walking a (non-symlink) component `c0` (= r[0]) keeps the protocol: pop_part never reports a broken stack
pub proof fn lemma_pop_part<F>(s: Seq<EntryV<F>>, r: Seq<Seq<u8>>, m: int)
    requires proto_inv(s, r, m), r.len() > 0,
    ensures
        !(ss_pop(s, norm(r[0])) is BrokenEmpty), !(ss_pop(s, norm(r[0])) is BrokenWrong),
        ss_pop(s, norm(r[0])) matches PopV::Popped(s2) ==> proto_inv(strip_tail(s2), r.skip(1), dec(m)),
        ss_pop(s, norm(r[0])) is EmptyStack ==> proto_inv(s, r.skip(1), dec(m)),
{
    let c = norm(r[0]);
    if m >= 1 { lemma_ntf_take_step(r, m); }
    assert(r.take(0) =~= Seq::<Seq<u8>>::empty());
    assert(r.skip(1).take(0) =~= Seq::<Seq<u8>>::empty());
    assert(ntf(Seq::<Seq<u8>>::empty()) =~= Seq::<Seq<u8>>::empty()) by { reveal_with_fuel(Seq::filter, 2); }
    assert(nontrivial(c) <==> nontrivial(r[0]));
    assert(nontrivial(r[0]) ==> c == r[0]);
    if c == DOTC() {
        lemma_strip_concat(s);
    } else if s.len() == 0 {
    } else {
        let t = s[s.len() - 1];
        assert(concat_parts(s) == t.parts + concat_parts(s.drop_last()));
        // top entry cannot be empty: then r[0] would be trivial
        assert(t.parts.len() > 0);
        assert(m >= 1) by {
            if m == 0 { assert(concat_parts(s).len() == 0); }
        }
        assert(concat_parts(s)[0] == t.parts[0]);
        assert(ntf(r.take(m))[0] == r[0]);
        let e = EntryV { dir: t.dir, rem: t.rem, parts: t.parts.skip(1) };
        let s2 = s.update(s.len() - 1, e);
        lemma_concat_update_top(s, e);
        lemma_strip_concat(s2);
        assert(e.parts + concat_parts(s.drop_last()) =~= concat_parts(s).skip(1));
        assert((seq![r[0]] + ntf(r.skip(1).take(m - 1))).skip(1) =~= ntf(r.skip(1).take(m - 1)));
    }
}

pub open spec fn ss_push_parts<F>(s: Seq<EntryV<F>>, dir: Rc<F>, rem: Seq<u8>, parts: Seq<Seq<u8>>) -> Seq<EntryV<F>> {
    s.push(EntryV { dir, rem, parts })
}
/// walking into a symlink `r[0]` whose body splits into `body` (never empty): swap_link never reports a broken stack
pub proof fn lemma_swap_link<F>(s: Seq<EntryV<F>>, r: Seq<Seq<u8>>, m: int, dir: Rc<F>, rem: Seq<u8>, body: Seq<Seq<u8>>)
    requires proto_inv(s, r, m), r.len() > 0, body.len() > 0,
    ensures
        !(ss_pop(s, norm(r[0])) is BrokenEmpty), !(ss_pop(s, norm(r[0])) is BrokenWrong),
        ss_pop(s, norm(r[0])) matches PopV::Popped(s2) ==> proto_inv(ss_push_parts(s2, dir, rem, ntf(body)), body + r.skip(1), body.len() + dec(m)),
        ss_pop(s, norm(r[0])) is EmptyStack ==> proto_inv(ss_push_parts(s, dir, rem, ntf(body)), body + r.skip(1), body.len() + dec(m)),
{
    let c = norm(r[0]);
    let r2 = body + r.skip(1);
    let m2 = body.len() + dec(m);
    if m >= 1 { lemma_ntf_take_step(r, m); }
    assert(r.take(0) =~= Seq::<Seq<u8>>::empty());
    assert(r.skip(1).take(0) =~= Seq::<Seq<u8>>::empty());
    assert(ntf(Seq::<Seq<u8>>::empty()) =~= Seq::<Seq<u8>>::empty()) by { reveal_with_fuel(Seq::filter, 2); }
    assert(nontrivial(c) <==> nontrivial(r[0]));
    assert(nontrivial(r[0]) ==> c == r[0]);
    assert(r2.take(m2) =~= body + r.skip(1).take(dec(m)));
    lemma_ntf_add(body, r.skip(1).take(dec(m)));
    if ntf(body).len() == 0 { lemma_ntf_empty_first(body); }
    assert(r2[0] == body[0]);
    let e = EntryV { dir, rem, parts: ntf(body) };
    if c == DOTC() {
        lemma_concat_push(s, e);
    } else if s.len() == 0 {
        lemma_concat_push(s, e);
        assert(concat_parts(s) =~= Seq::<Seq<u8>>::empty());
        assert(ntf(r.skip(1).take(dec(m))) =~= Seq::<Seq<u8>>::empty()) by {
            if m >= 1 { assert(concat_parts(s).len() == 0); }
        }
    } else {
        let t = s[s.len() - 1];
        assert(concat_parts(s) == t.parts + concat_parts(s.drop_last()));
        assert(t.parts.len() > 0);
        assert(m >= 1) by { if m == 0 { assert(concat_parts(s).len() == 0); } }
        assert(concat_parts(s)[0] == t.parts[0]);
        assert(ntf(r.take(m))[0] == r[0]);
        let e1 = EntryV { dir: t.dir, rem: t.rem, parts: t.parts.skip(1) };
        let s2 = s.update(s.len() - 1, e1);
        lemma_concat_update_top(s, e1);
        lemma_concat_push(s2, e);
        assert(e1.parts + concat_parts(s.drop_last()) =~= concat_parts(s).skip(1));
        assert((seq![r[0]] + ntf(r.skip(1).take(m - 1))).skip(1) =~= ntf(r.skip(1).take(m - 1)));
    }
}

pub proof fn lemma_proto_init<F>(s: Seq<EntryV<F>>, r: Seq<Seq<u8>>)
    requires s.len() == 0
    ensures proto_inv(s, r, 0)
{
    assert(r.take(0) =~= Seq::<Seq<u8>>::empty());
    assert(ntf(Seq::<Seq<u8>>::empty()) =~= Seq::<Seq<u8>>::empty()) by { reveal_with_fuel(Seq::filter, 2); }
}
pub proof fn lemma_push_pop_parts<F>(s: Seq<EntryV<F>>, c: Seq<u8>, dir: Rc<F>, rem: Seq<u8>, target: Seq<u8>)
    ensures
        ss_push(s, dir, rem, target) == ss_push_parts(s, dir, rem, ntf(split(target))),
        ss_pop(s, c) matches PopV::Popped(s2) ==> ss_push(s2, dir, rem, target) == ss_push_parts(s2, dir, rem, ntf(split(target))),
{}
