// ---- prelude/fd.rs: descriptors with ghost attributes (DESIGN 4.1) --------------------
// Ghost attributes of the *open file description* a descriptor refers to.  They are
// uninterpreted: the only way to obtain one is through a kernel axiom stated as the
// postcondition of a syscall stub, or a verified check function.
pub uninterp spec fn lineage(id: int) -> bool;      // reached from the root by A1 steps only
pub uninterp spec fn witnessed(id: int) -> bool;    // procfs path check saw it under the root (A3)
pub uninterp spec fn is_procfs(id: int) -> bool;    // f_type == PROC_SUPER_MAGIC was checked
pub uninterp spec fn kflags(id: int) -> i32;        // O_* bits given to the kernel at open time
pub uninterp spec fn kresolve(id: int) -> int;      // RESOLVE_* bits (openat2)
pub uninterp spec fn is_cwd(id: int) -> bool;       // AT_FDCWD pseudo-descriptor
pub uninterp spec fn raw_of(id: int) -> int;        // numeric descriptor value
pub uninterp spec fn borrowed_from_c(id: int) -> bool; // lent by a C caller: must never be closed
/// rigid (static-tree units only): no syscall fails for reasons outside the static model (EMFILE, ENOMEM, ...)
pub uninterp spec fn static_no_faults() -> bool;
/// the text is what readlink(2) reports for a procfs magic-link ("/..." of any file, "net:[...]", "pipe:[...]", "anon_inode:...")
pub uninterp spec fn magiclink_body(body: Seq<u8>) -> bool;
/// (base, sub-path) names a magic-link of the handle's procfs (fd/N, exe, cwd, root, ns/*), not an ordinary symlink
pub uninterp spec fn names_magiclink(subpath: Seq<u8>) -> bool;
pub uninterp spec fn fresh_kernel_fd(fd: int) -> bool;   // returned by a successful syscall just now
/// G2: `OwnedFd::from_raw_fd(n)` outside the syscall layer: taking ownership of a raw number is only sound for a descriptor the
/// kernel has just handed to this very call
#[verifier::external_body]
pub fn owned_from_raw_fd_shim(fd: i32) -> (r: OwnedFd)
    requires fd >= 0, fresh_kernel_fd(fd as int)                     // [C11+C17.from_raw_fd.only_a_descriptor_the_kernel_just_returned]
    ensures raw_of(r.id()) == fd as int
{ unimplemented!() }
#[verifier::external_body]
pub fn file_from_raw_fd_shim(fd: i32) -> (r: File)
    requires fd >= 0, fresh_kernel_fd(fd as int)                     // [C11+C17.from_raw_fd.only_a_descriptor_the_kernel_just_returned]
    ensures raw_of(r.id()) == fd as int
{ unimplemented!() }
impl File {
    /// std: fstat of the descriptor
    #[verifier::external_body]
    pub fn metadata(&self) -> (r: Result<StdMetadataOpaque, IOError>) { unimplemented!() }
    #[verifier::external_body]
    pub fn into_raw_fd(self) -> (r: i32) ensures r as int == raw_of(self.id()), handed_over_open(self.id()) { unimplemented!() }
}
#[verifier::external_body]
pub struct StdMetadataOpaque { _p: () }
/// G1: `std::mem::forget(x)`.  Forgetting an owner of a descriptor is how a lent descriptor gets wrapped in an owning type
/// "temporarily"; every early return between the wrap and the forget closes the caller's descriptor.  Not used anywhere in
/// the library; a use is an obligation that cannot be discharged.
pub fn mem_forget_shim<T>(t: T)
    requires false,            // [C11+C17.mem_forget.descriptor_owners_are_never_forgotten]
{}
/// what rustix accepts as a directory descriptor: AT_FDCWD or a non-negative number
pub open spec fn valid_dirfd(id: int) -> bool { raw_of(id) == libc::AT_FDCWD as int || raw_of(id) >= 0 }
/// the descriptor has FD_CLOEXEC (C05/C11: every descriptor the library creates must have it)
pub uninterp spec fn cloexec(fd: int) -> bool;

#[verifier::external_body]
pub struct OwnedFd { _p: () }
impl OwnedFd { pub uninterp spec fn id(&self) -> int; }
impl core::fmt::Debug for OwnedFd { #[verifier::external_body] fn fmt(&self, f: &mut core::fmt::Formatter<'_>) -> core::fmt::Result { unimplemented!() } }

#[derive(Clone, Copy)]
pub struct BorrowedFd<'a> { pub id: Ghost<int>, pub _p: core::marker::PhantomData<&'a ()> }

impl<'a> BorrowedFd<'a> {
    /// fcntl(F_DUPFD_CLOEXEC): the new descriptor refers to the same open file description
    #[verifier::external_body]
    pub fn try_clone_to_owned(&self) -> (r: Result<OwnedFd, IOError>)
        ensures r matches Ok(fd) ==> same_description(fd.id(), self.id@) && lineage(fd.id()) == lineage(self.id@)
            && is_procfs(fd.id()) == is_procfs(self.id@) && mnt_checked(fd.id()) == mnt_checked(self.id@)
            && mnt_of(fd.id()) == mnt_of(self.id@) && ino_of(fd.id()) == ino_of(self.id@)
            && cloexec(fd.id()) && witnessed(fd.id()) == witnessed(self.id@),
            static_no_faults() ==> r is Ok,
    { unimplemented!() }
}
pub uninterp spec fn same_description(a: int, b: int) -> bool;
pub uninterp spec fn ino_of(fd: int) -> u64;     // inode number of the object
pub trait AsFd {
    spec fn fd_id(&self) -> int;
    fn as_fd(&self) -> (r: BorrowedFd<'_>) ensures r.id@ == self.fd_id();
}
impl AsFd for OwnedFd {
    open spec fn fd_id(&self) -> int { self.id() }
    /// A7: an OwnedFd never holds a negative number
    #[verifier::external_body]
    fn as_fd(&self) -> (r: BorrowedFd<'_>) ensures raw_of(r.id@) >= 0 { unimplemented!() }
}
impl AsFd for BorrowedFd<'_> {
    open spec fn fd_id(&self) -> int { self.id@ }
    fn as_fd(&self) -> (r: BorrowedFd<'_>) { *self }
}
impl<T: AsFd> AsFd for &T {
    open spec fn fd_id(&self) -> int { (**self).fd_id() }
    fn as_fd(&self) -> (r: BorrowedFd<'_>) { (**self).as_fd() }
}
pub trait AsRawFd {
    spec fn raw_spec(&self) -> int;
    fn as_raw_fd(&self) -> (r: i32) ensures r as int == self.raw_spec();
}
impl AsRawFd for BorrowedFd<'_> {
    open spec fn raw_spec(&self) -> int { raw_of(self.id@) }
    #[verifier::external_body]
    fn as_raw_fd(&self) -> (r: i32) { unimplemented!() }
}
impl AsRawFd for OwnedFd {
    open spec fn raw_spec(&self) -> int { raw_of(self.id()) }
    #[verifier::external_body]
    fn as_raw_fd(&self) -> (r: i32) { unimplemented!() }
}
pub struct File { pub fd: OwnedFd }
impl AsRawFd for File {
    open spec fn raw_spec(&self) -> int { raw_of(self.fd.id()) }
    #[verifier::external_body]
    fn as_raw_fd(&self) -> (r: i32) { unimplemented!() }
}
impl File { pub open spec fn id(&self) -> int { self.fd.id() } }
impl AsFd for File {
    open spec fn fd_id(&self) -> int { self.fd.id() }
    fn as_fd(&self) -> (r: BorrowedFd<'_>) { self.fd.as_fd() }
}
impl vstd::std_specs::convert::FromSpecImpl<OwnedFd> for File {
    open spec fn obeys_from_spec() -> bool { true }
    open spec fn from_spec(fd: OwnedFd) -> File { File { fd } }
}
impl From<OwnedFd> for File { fn from(fd: OwnedFd) -> (r: File) { File { fd } } }
impl vstd::std_specs::convert::FromSpecImpl<File> for OwnedFd {
    open spec fn obeys_from_spec() -> bool { true }
    open spec fn from_spec(f: File) -> OwnedFd { f.fd }
}
impl From<File> for OwnedFd { fn from(f: File) -> (r: OwnedFd) { f.fd } }
pub uninterp spec fn mnt_checked(id: int) -> bool;  // statx mount id was compared with the procfs handle's
pub uninterp spec fn opened_from(fd: int, dir: int, name: Seq<u8>) -> bool; // fd = openat(dir, name)
// ---- relations used to state C14 ("exactly the *at call on (in-root parent, final name)")
/// `h` is the result of the in-root resolution of `path` under root `root` (A4 / U06)
pub uninterp spec fn resolved_from(h: int, root: int, path: Seq<u8>, nofollow: bool) -> bool;
/// rigid (universally quantified) names for "the arguments of the operation being verified"
pub uninterp spec fn requested_path(which: int) -> Seq<u8>;
pub uninterp spec fn requested_root() -> int;
pub uninterp spec fn requested_mode() -> u32;
pub uninterp spec fn requested_fmt() -> u32;
pub uninterp spec fn requested_dev() -> u64;
pub uninterp spec fn requested_oflags() -> i32;
pub uninterp spec fn requested_rflags() -> u32;
pub uninterp spec fn link_body_of(fd: int, body: Seq<u8>) -> bool; // readlinkat(fd, "") returned body
pub uninterp spec fn reopened_from(fd: int, orig: int) -> bool; // fd = open(/proc/thread-self/fd/<orig>) (A6)
/// the one legal site of a followed open: `d` is a verified procfs directory and the dentry `n`
/// in it is on the same mount (no over-mount on the magic-link itself)
pub open spec fn follow_site_ok(d: int, n: Seq<u8>) -> bool {
    is_procfs(d) && (kernel_reports_mnt_ids() ==> mnt_at(d, n) == mnt_of(d))
}
pub uninterp spec fn follow_checked(dir: int, link: int) -> bool;    // may_follow_link(dir, link) allowed following this symlink
/// the link was opened as an entry of a directory against which the protected_symlinks rule was evaluated
pub open spec fn follow_checked_in_parent(link: int) -> bool { exists|d: int, n: Seq<u8>| (#[trigger] opened_from(link, d, n)) && follow_checked(d, link) }
pub uninterp spec fn no_symlinks_requested() -> bool;     // rigid: the operation was asked not to follow any link
/// the descriptor refers to a detached mount that only this process can reach (fsmount(2) result; open_tree(2) with
/// OPEN_TREE_CLONE): mounts made on the host's /proc are not part of it (A5b)
pub uninterp spec fn private_mount(id: int) -> bool;
/// the mount behind the descriptor is the host's /proc mount or a clone of it (open_tree(2), open(2)) and shares its
/// hidepid= / subset= options; a mount made by fsmount(2) from a new superblock is not
pub uninterp spec fn derived_from_host_mount(id: int) -> bool;
/// definitional ghost record (variant `attempt` of new_fsopen): the attempt of this call to create a new instance failed
pub uninterp spec fn new_instance_attempt_failed(subset: bool) -> bool;
pub uninterp spec fn clone_attempt_failed() -> bool;
/// A10: at some moment of the call the directory had no entry of that name (unlinkat succeeded, or unlinkat / openat reported ENOENT)
pub uninterp spec fn entry_gone(dir: int, name: Seq<u8>) -> bool;
/// the object the descriptor refers to is a symbolic link (only an O_PATH|O_NOFOLLOW descriptor can be one)
pub uninterp spec fn is_symlink_object(fd: int) -> bool;
pub uninterp spec fn kflags64(id: int) -> u64;       // openat2: how.flags as given to the kernel
pub uninterp spec fn resolve_bits_of(id: int) -> u64; // openat2: how.resolve as given to the kernel
pub open spec fn resolve_confined(r: u64) -> bool { r & 0x12u64 == 0x12u64 || r & 0x0bu64 == 0x0bu64 }
pub open spec fn beneath_noxdev(r: u64) -> bool { r & 0x0bu64 == 0x0bu64 }
/// definition of the token `resolved_from`: `h` is what the resolver returned for (root, path, nofollow)
pub proof fn axiom_resolution_result(h: int, root: int, path: Seq<u8>, nofollow: bool)
    requires lineage(h),          // [C01+C02+C03.resolution_result.only_in_root_handles_are_results]
    ensures resolved_from(h, root, path, nofollow)
{ admit(); }
// ---- procfs vocabulary (A5: statx mount ids identify mounts)
pub uninterp spec fn handle_mnt() -> Option<u64>;                    // rigid: mount id recorded in the ProcfsHandle of this operation
/// rigid: the running kernel reports mount ids through statx (Linux 5.8+); C06 is stated for such kernels
pub uninterp spec fn kernel_reports_mnt_ids() -> bool;
pub open spec fn pinned(id: int) -> bool { kernel_reports_mnt_ids() ==> mnt_of(id) == handle_mnt() }
pub mod mntax {
    use super::*;
    pub uninterp spec fn mnt_of(id: int) -> Option<u64>;                  // statx mount id of the object (None = unreported)
    pub uninterp spec fn mnt_at(dir: int, name: Seq<u8>) -> Option<u64>;  // mount id the kernel reports for (dir, name)
    pub broadcast axiom fn axiom_mnt_at_empty(d: int, name: Seq<u8>)
        ensures name.len() == 0 ==> #[trigger] mnt_at(d, name) == mnt_of(d);
}
pub use mntax::{mnt_of, mnt_at};
//@broadcast mntax::axiom_mnt_at_empty
/// R12: `unsafe { BorrowedFd::borrow_raw(fd) }` -- forming a BorrowedFd from a negative number is UB
#[verifier::external_body]
pub fn borrow_raw_nonneg<'a>(fd: i32) -> (r: BorrowedFd<'a>)
    requires fd >= 0                             // [C05+C11+C17.borrow_raw.only_nonnegative]
    ensures raw_of(r.id@) == fd as int, borrowed_from_c(r.id@)
{ unimplemented!() }
/// the owner gave the descriptor up *without closing it* (`into_raw_fd`); reading the number of a descriptor that stays owned
/// (`as_raw_fd`) does not: its owner closes it when it is dropped
pub uninterp spec fn handed_over_open(id: int) -> bool;
pub trait IntoRawFd: Sized { fn into_raw_fd(self) -> (r: i32); }
impl IntoRawFd for OwnedFd {
    /// ownership of the descriptor leaves Rust: only legal for descriptors the library opened itself
    #[verifier::external_body]
    fn into_raw_fd(self) -> (r: i32)
        ensures r as int == raw_of(self.id()), handed_over_open(self.id())
    { unimplemented!() }
}
pub open spec fn creation_flags(bits: i32) -> bool { bits & (libc::O_CREAT | libc::O_EXCL) != 0 || bits & libc::O_TMPFILE == libc::O_TMPFILE }
/// the link body was read (readlinkat(fd, "")) from a descriptor that passed the procfs checks
pub open spec fn exists_procfs_link(body: Seq<u8>) -> bool { exists|l: int| (#[trigger] link_body_of(l, body)) && is_procfs(l) }
pub uninterp spec fn requested_flags_of(fd: int) -> i32;   // open flags a reopen / procfs open was asked for
pub uninterp spec fn cwd_id() -> int;   // the AT_FDCWD pseudo-descriptor
/// `rustix::io::dup` (dup(2)): the copy shares the open file description but is NOT close-on-exec; the library's
/// own duplication goes through `try_clone_to_owned` (F_DUPFD_CLOEXEC).  Modelled so that code using it is judged
/// by the contracts instead of being outside the verified subset.
pub mod rustix {
    pub mod io {
        use super::super::*;
        #[verifier::external_body]
        pub fn dup<Fd: AsFd>(fd: Fd) -> (r: Result<OwnedFd, super::super::Errno>)
            ensures r matches Ok(n) ==> same_description(n.id(), fd.fd_id()) && lineage(n.id()) == lineage(fd.fd_id())
                && is_procfs(n.id()) == is_procfs(fd.fd_id()) && mnt_checked(n.id()) == mnt_checked(fd.fd_id())
                && mnt_of(n.id()) == mnt_of(fd.fd_id()) && ino_of(n.id()) == ino_of(fd.fd_id())
        { unimplemented!() }
    }
}
