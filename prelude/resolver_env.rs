// ---- prelude/resolver_env.rs: environment of the emulated resolver -------------------------
use std::rc::Rc;
use std::collections::VecDeque;
pub assume_specification<T, A: core::alloc::Allocator>[VecDeque::<T, A>::is_empty](v: &VecDeque<T, A>) -> (r: bool)
    ensures r == (v@.len() == 0);

#[verifier::external_body]
pub struct Metadata { _p: () }
impl Metadata {
    pub uninterp spec fn symlink(&self) -> bool;
    pub uninterp spec fn uid_spec(&self) -> u32;
    pub uninterp spec fn mode_spec(&self) -> u32;
    #[verifier::external_body]
    pub fn is_symlink(&self) -> (r: bool) ensures r == self.symlink() { unimplemented!() }
    #[verifier::external_body]
    pub fn uid(&self) -> (r: u32) ensures r == self.uid_spec() { unimplemented!() }
    #[verifier::external_body]
    pub fn mode(&self) -> (r: u32) ensures r == self.mode_spec() { unimplemented!() }
}
/// the path the kernel reported for `fd` through the (verified) procfs handle at the k-th read
pub uninterp spec fn observed(fd: int, p: Seq<u8>, k: int) -> bool;
/// std's Path equality (component-wise; "." and repeated '/' are normalised away)
pub uninterp spec fn path_eq(a: Seq<u8>, b: Seq<u8>) -> bool;
pub uninterp spec fn join_spec(a: Seq<u8>, b: Seq<u8>) -> Seq<u8>;
pub uninterp spec fn dot_then(p: Seq<u8>) -> Seq<u8>;
pub uninterp spec fn meta_of(fd: int) -> Metadata;

pub trait FdExt: AsFd {
    /// utils/fd.rs FdExt::metadata (U15)
    #[verifier::external_body]
    fn metadata(&self) -> (r: Result<Metadata, Error>)
        ensures r matches Ok(m) ==> m == meta_of(self.fd_id())
    { unimplemented!() }
    #[verifier::external_body]
    fn is_magiclink_filesystem(&self) -> (r: Result<bool, Error>) { unimplemented!() }
    /// R18: the k-th textual `x.as_unsafe_path(&GLOBAL_PROCFS_HANDLE)` of check_current
    #[verifier::external_body]
    fn as_unsafe_path_at(&self, k: u8) -> (r: Result<PathBuf, Error>)
        ensures r matches Ok(p) ==> observed(self.fd_id(), p@, k as int)
    { unimplemented!() }
}
impl<T: AsFd> FdExt for T {}

impl vstd::std_specs::cmp::PartialEqSpecImpl for PathBuf {
    open spec fn obeys_eq_spec() -> bool { true }
    open spec fn eq_spec(&self, other: &PathBuf) -> bool { path_eq(self@, other@) }
}
impl PartialEq for PathBuf {
    #[verifier::external_body]
    fn eq(&self, other: &PathBuf) -> (r: bool) { unimplemented!() }
}
impl Clone for PathBuf {
    #[verifier::external_body]
    fn clone(&self) -> (r: PathBuf) ensures r@ == self@ { unimplemented!() }
}
impl PathBuf {
    #[verifier::external_body]
    pub fn new() -> (r: PathBuf) ensures r@.len() == 0 { unimplemented!() }
    #[verifier::external_body]
    pub fn join(&self, p: PathBuf) -> (r: PathBuf) ensures r@ == join_spec(self@, p@) { unimplemented!() }
    /// A7: pop() removes the last component; false iff there is none ("/" or "")
    #[verifier::external_body]
    pub fn pop(&mut self) -> (r: bool) { unimplemented!() }
    #[verifier::external_body]
    pub fn push<P: AsRefPath>(&mut self, p: P) { unimplemented!() }
    #[verifier::external_body]
    pub fn is_absolute(&self) -> (r: bool) ensures r == (self@.len() > 0 && self@[0] == 47u8) { unimplemented!() }
}
#[verifier::external_body]
pub fn pathbuf_lit(b: &'static [u8]) -> (r: PathBuf) ensures r@ == b@ { unimplemented!() }
#[verifier::external_body]
pub fn osstring_lit(b: &'static [u8]) -> (r: OsString) ensures r@ == b@ { unimplemented!() }

/// R6 variant: the same chain with `.filter(|p| !p.is_empty())` (empty components dropped)
#[verifier::external_body]
pub fn collect_components_nonempty<P: AsRefPath>(path: &P) -> (r: VecDeque<OsString>)
    ensures cv(r@) == split(path.pview()).filter(|c: Seq<u8>| c.len() > 0),
        forall|i: int| 0 <= i < r@.len() ==> no_slash(#[trigger] r@[i]@),
{ unimplemented!() }
/// R6 (collect_components): `path.raw_components().map(|p| p.to_os_string()).collect::<VecDeque<_>>()`
/// (contract derived from RawComponents::next, U01, + std map/collect semantics, A7)
#[verifier::external_body]
pub fn collect_components<P: AsRefPath>(path: &P) -> (r: VecDeque<OsString>)
    ensures r@.len() == split(path.pview()).len(),
        forall|i: int| 0 <= i < r@.len() ==> #[trigger] r@[i]@ == split(path.pview())[i],
        forall|i: int| 0 <= i < r@.len() ==> no_slash(#[trigger] r@[i]@),
{ unimplemented!() }
/// R6 (all_empty): `remaining_components.iter().all(|part| part.is_empty())` (std Iterator::all semantics, A7)
pub open spec fn all_empty(s: Seq<Seq<u8>>) -> bool { forall|i: int| 0 <= i < s.len() ==> (#[trigger] s[i]).len() == 0 }
#[verifier::external_body]
pub fn all_components_empty(q: &VecDeque<OsString>) -> (r: bool) ensures r == all_empty(cv(q@)) { unimplemented!() }
/// R6 (join_remaining): `Itertools::intersperse(once(&part).chain(rest.iter()).map(as_os_str), "/").collect::<OsString>().into()`
#[verifier::external_body]
pub fn join_remaining(part: &OsString, rest: &VecDeque<OsString>) -> (r: PathBuf) { unimplemented!() }
/// R6 (dot_then_components): `iter::once(".").chain(expected.raw_components()).collect::<PathBuf>()`
#[verifier::external_body]
pub fn dot_then_components(expected: &Path) -> (r: PathBuf) ensures r@ == dot_then(expected@) { unimplemented!() }

/// A3 (procfs witness): the root's path was read, then the handle's path, then the root's path
/// again; the two root reads agree and the handle's path equals <root path>/./<expected>.  Then
/// the handle's object was reachable under the root at the moment of the middle read.
pub proof fn axiom_a3_procfs_witness(root: int, cur: int, rp: Seq<u8>, cp: Seq<u8>, rp2: Seq<u8>, expected: Seq<u8>)
    requires
        observed(root, rp, 1),                                  // [C02.A3.root_path_read_first]
        observed(cur, cp, 2),                                   // [C02.A3.handle_path_read]
        observed(root, rp2, 3),                                 // [C02.A3.root_path_reread_after]
        path_eq(rp, rp2),                                       // [C02.A3.root_did_not_move]
        path_eq(cp, join_spec(rp, dot_then(expected))),         // [C01+C02+C03.A3.handle_path_is_root_plus_expected]
    ensures lineage(cur), witnessed(cur)
{ admit(); }
//@item src/utils/path.rs :: struct RawComponents | sub.derive_debug
impl PathBuf {
    #[verifier::external_body]
    pub(crate) fn raw_components(&self) -> (r: RawComponents<'_>) ensures r.inner matches Some(p) && p@ == self@ { unimplemented!() }
}
