// ---- prelude/pathspec.rs: mathematical vocabulary for path splitting ---------------------
// index of the first occurrence of c, or p.len()
pub open spec fn first_idx(p: Seq<u8>, c: u8) -> int
    decreases p.len()
{
    if p.len() == 0 { 0 } else if p[0] == c { 0 } else { 1 + first_idx(p.skip(1), c) }
}
/// `split(p)` = p split at every '/', keeping empty components (like the kernel's walk
/// sees them: "a//b" = ["a","","b"], "" = [""], "a/" = ["a",""]).
pub open spec fn split(p: Seq<u8>) -> Seq<Seq<u8>>
    decreases p.len()
{
    let i = first_idx(p, 47u8);
    if 0 <= i < p.len() {
        seq![p.subrange(0, i)] + split(p.subrange(i + 1, p.len() as int))
    } else {
        seq![p]
    }
}
pub proof fn lemma_split_nonempty(p: Seq<u8>)
    ensures split(p).len() > 0
{}
pub proof fn lemma_first_idx(p: Seq<u8>, c: u8)
    ensures
        0 <= first_idx(p, c) <= p.len(),
        first_idx(p, c) < p.len() ==> p[first_idx(p, c)] == c,
        forall|j: int| 0 <= j < first_idx(p, c) ==> p[j] != c,
    decreases p.len()
{
    if p.len() == 0 {
    } else if p[0] == c {
    } else {
        lemma_first_idx(p.skip(1), c);
        assert forall|j: int| 0 <= j < first_idx(p, c) implies p[j] != c by {
            if j > 0 { assert(p.skip(1)[j - 1] == p[j]); }
        }
    }
}
pub proof fn lemma_first_idx_unique(p: Seq<u8>, c: u8, i: int)
    requires 0 <= i <= p.len(), (i < p.len() ==> p[i] == c), forall|j: int| 0 <= j < i ==> p[j] != c
    ensures first_idx(p, c) == i
{
    lemma_first_idx(p, c);
    let k = first_idx(p, c);
    if k < i { assert(p[k] == c); assert(p[k] != c); }
    if k > i { assert(p[i] != c); }
}
pub proof fn lemma_split_no_slash(p: Seq<u8>)
    requires no_slash(p)
    ensures split(p) =~= seq![p]
{
    lemma_first_idx_unique(p, 47u8, p.len() as int);
}
/// splitting at the LAST '/': split(p) = split(p[..i]) ++ [p[i+1..]]
pub proof fn lemma_split_last(p: Seq<u8>, i: int)
    requires 0 <= i < p.len(), p[i] == 47u8, forall|j: int| i < j < p.len() ==> p[j] != 47u8
    ensures split(p) =~= split(p.subrange(0, i)).push(p.subrange(i + 1, p.len() as int))
    decreases p.len()
{
    lemma_first_idx(p, 47u8);
    let f = first_idx(p, 47u8);
    let n = p.len() as int;
    if f > i { assert(p[i] != 47u8); }
    let q = p.subrange(0, i);
    let suffix = p.subrange(i + 1, n);
    if f == i {
        assert(no_slash(q));
        assert(no_slash(suffix));
        lemma_split_no_slash(q);
        lemma_split_no_slash(suffix);
        assert(p.subrange(0, f) =~= q);
        assert(p.subrange(f + 1, n) =~= suffix);
        assert(split(p) =~= seq![q] + split(suffix));
    } else {
        let p2 = p.subrange(f + 1, n);
        assert(p2[i - f - 1] == p[i]);
        assert forall|j: int| i - f - 1 < j < p2.len() implies p2[j] != 47u8 by { assert(p2[j] == p[j + f + 1]); }
        lemma_split_last(p2, i - f - 1);
        assert(q[f] == 47u8);
        assert forall|j: int| 0 <= j < f implies q[j] != 47u8 by { assert(q[j] == p[j]); }
        lemma_first_idx_unique(q, 47u8, f);
        assert(q.subrange(f + 1, i) =~= p2.subrange(0, i - f - 1));
        assert(q.subrange(0, f) =~= p.subrange(0, f));
        assert(p2.subrange(i - f, p2.len() as int) =~= suffix);
        assert(split(q) =~= seq![p.subrange(0, f)] + split(p2.subrange(0, i - f - 1)));
        assert(split(p) =~= seq![p.subrange(0, f)] + split(p2));
    }
}
pub open spec fn cv(q: Seq<OsString>) -> Seq<Seq<u8>> { q.map_values(|s: OsString| s@) }
pub open spec fn opt_osstr_view(o: Option<&OsStr>) -> Seq<Seq<u8>> {
    match o { None => Seq::<Seq<u8>>::empty(), Some(p) => split(p@) }
}
pub open spec fn opt_path_view(o: Option<&Path>) -> Option<Seq<u8>> {
    match o { Some(b) => Some(b@), None => None }
}
/// (dir, base) is the decomposition of `path` at its last '/'
pub open spec fn split_ok(path: Seq<u8>, dir: Seq<u8>, base: Option<Seq<u8>>) -> bool {
    match base {
        Some(b) => no_slash(b) && (
            (dir =~= seq![46u8] && path =~= b && b.len() > 0)
            || (path =~= dir + seq![47u8] + b && dir.len() > 0)
            || (dir =~= seq![47u8] && path =~= seq![47u8] + b)
        ),
        None => path.len() == 0 || path[path.len() - 1] == 47u8,
    }
}
// ---- std::path::Components (only what a fresh iterator's first `next()` yields is specified; A7: std normalises
// repeated '/' and non-leading "." away, keeps a leading "." as CurDir and every ".." as ParentDir)
pub enum Component<'a> { RootDir, CurDir, ParentDir, Normal(&'a OsStr) }
pub struct Components<'a> { pub rest: &'a Path, pub fresh: bool }
pub open spec fn first_segment(p: Seq<u8>) -> Seq<u8> { p.subrange(0, first_idx(p, 47u8)) }
impl Path {
    pub fn components(&self) -> (r: Components<'_>) ensures r.rest@ == self@, r.fresh { Components { rest: self, fresh: true } }
}
impl<'a> Components<'a> {
    #[verifier::external_body]
    pub fn next(&mut self) -> (r: Option<Component<'a>>)
        ensures
            old(self).fresh && old(self).rest@.len() == 0 ==> r is None,
            old(self).fresh && old(self).rest@.len() > 0 && old(self).rest@[0] == 47u8 ==> r matches Some(Component::RootDir),
            old(self).fresh && old(self).rest@.len() > 0 && old(self).rest@[0] != 47u8 ==> (
                (first_segment(old(self).rest@) =~= seq![46u8] ==> r matches Some(Component::CurDir))
                && (first_segment(old(self).rest@) =~= seq![46u8, 46u8] ==> r matches Some(Component::ParentDir))
                && (!(first_segment(old(self).rest@) =~= seq![46u8]) && !(first_segment(old(self).rest@) =~= seq![46u8, 46u8]) ==> r matches Some(Component::Normal(_)))),
            !final(self).fresh,
    { unimplemented!() }
}
