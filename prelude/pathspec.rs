// ---- prelude/pathspec.rs: mathematical vocabulary for path splitting ---------------------
// index of the first occurrence of c, or p.len()
pub open spec fn first_idx(p: Seq<u8>, c: u8) -> int
    decreases p.len()
{
    if p.len() == 0 { 0 } else if p[0] == c { 0 } else { 1 + first_idx(p.skip(1), c) }
}
/// `split(p)` = p split at every '/', keeping empty components (like the kernel's walk
/// sees them: "a//b" = ["a","","b"], "" = [""], "a/" = ["a",""]).
pub open spec fn split(p: Seq<u8>) -> Seq<Seq<u8>>
    decreases p.len()
{
    let i = first_idx(p, 47u8);
    if 0 <= i < p.len() {
        seq![p.subrange(0, i)] + split(p.subrange(i + 1, p.len() as int))
    } else {
        seq![p]
    }
}
pub proof fn lemma_first_idx(p: Seq<u8>, c: u8)
    ensures
        0 <= first_idx(p, c) <= p.len(),
        first_idx(p, c) < p.len() ==> p[first_idx(p, c)] == c,
        forall|j: int| 0 <= j < first_idx(p, c) ==> p[j] != c,
    decreases p.len()
{
    if p.len() == 0 {
    } else if p[0] == c {
    } else {
        lemma_first_idx(p.skip(1), c);
        assert forall|j: int| 0 <= j < first_idx(p, c) implies p[j] != c by {
            if j > 0 { assert(p.skip(1)[j - 1] == p[j]); }
        }
    }
}
pub proof fn lemma_first_idx_unique(p: Seq<u8>, c: u8, i: int)
    requires 0 <= i <= p.len(), (i < p.len() ==> p[i] == c), forall|j: int| 0 <= j < i ==> p[j] != c
    ensures first_idx(p, c) == i
{
    lemma_first_idx(p, c);
    let k = first_idx(p, c);
    if k < i { assert(p[k] == c); assert(p[k] != c); }
    if k > i { assert(p[i] != c); }
}
pub open spec fn opt_osstr_view(o: Option<&OsStr>) -> Seq<Seq<u8>> {
    match o { None => Seq::<Seq<u8>>::empty(), Some(p) => split(p@) }
}
pub open spec fn opt_path_view(o: Option<&Path>) -> Option<Seq<u8>> {
    match o { Some(b) => Some(b@), None => None }
}
/// (dir, base) is the decomposition of `path` at its last '/'
pub open spec fn split_ok(path: Seq<u8>, dir: Seq<u8>, base: Option<Seq<u8>>) -> bool {
    match base {
        Some(b) => no_slash(b) && (
            (dir =~= seq![46u8] && path =~= b && b.len() > 0)
            || (path =~= dir + seq![47u8] + b && dir.len() > 0)
            || (dir =~= seq![47u8] && path =~= seq![47u8] + b)
        ),
        None => path.len() == 0 || path[path.len() - 1] == 47u8,
    }
}
