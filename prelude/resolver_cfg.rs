// ---- prelude/resolver_cfg.rs: which resolver configuration an operation has to use --------------------
/// rigid: the resolver configuration (backend + flags) of the Root / RootRef the application called through
pub uninterp spec fn configured_resolver() -> Resolver;
/// `Resolver::default()`: ResolverBackend::default() (openat2 when the kernel has it) and empty flags
pub uninterp spec fn default_resolver_spec() -> Resolver;
impl Resolver {
    /// R7: `Default::default()` in a `resolver:` field initialiser
    #[verifier::external_body]
    pub fn default_resolver() -> (r: Resolver) ensures r == default_resolver_spec() { unimplemented!() }
}
