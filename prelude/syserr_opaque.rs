// ---- prelude/syserr_opaque.rs: `syscalls::Error` as seen by the callers of the wrappers --
    #[verifier::external_body]
    pub struct Error { _p: () }
    impl Error {
        pub uninterp spec fn errno_spec(&self) -> i32;
        #[verifier::external_body]
        pub fn errno(&self) -> (r: Errno) ensures r.raw == self.errno_spec() { unimplemented!() }
        #[verifier::external_body]
        pub fn root_cause(&self) -> (r: IOError) ensures r.raw() == Some(self.errno_spec()) { unimplemented!() }
    }
    pub type Dev = u64;
    pub type RawMode = u32;
//@item src/syscalls.rs :: struct OpenHow | sub.OpenHow
