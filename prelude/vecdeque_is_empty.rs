pub assume_specification<T, A: core::alloc::Allocator>[VecDeque::<T, A>::is_empty](v: &VecDeque<T, A>) -> (r: bool)
    ensures r == (v@.len() == 0);
