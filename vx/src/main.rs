//! vx — mechanical extractor of libpathrs items for Verus.
//!
//! Reads a JSON job on stdin, writes a JSON result on stdout.  It never pretty
//! prints: the item is copied as *text* (byte range of the syn node in the file
//! of /repo) and every rewrite is a text edit at the span of an AST node or of a
//! token-tree match.  Untouched bytes are the repository's bytes.
//!
//! job    = { "file": path, "selector": "...", "rules": ["R3",..],
//!            "substs": [ {"name":..,"pat":..,"rep":..,"count":n|null,"phase":"pre"|"post"} ],
//!            "hints": { "and_then": "result"|"option", "map": "result"|"option" } }
//! result = { "ok": true, "orig": text, "start_line": n, "text": rewritten,
//!            "fired": {rule: count}, "dropped_attrs": [..],
//!            "sig": {"body_open": off, "ret": [type_start, type_end] | null, "has_self": bool},
//!            "loops": [ {"kw": off, "body_open": off, "kind": "while"|"loop"|"for"} ] }
//!          | { "ok": false, "error": "lost anchor: ..." }

use proc_macro2::{Delimiter, TokenStream, TokenTree};
use std::collections::BTreeMap;
use std::io::Read;
use std::ops::Range;
use std::str::FromStr;
use syn::spanned::Spanned;
use syn::visit::{self, Visit};

mod rules;
mod subst;

fn fail(msg: String) -> ! {
    let v = serde_json::json!({"ok": false, "error": msg});
    println!("{}", v);
    std::process::exit(0);
}

pub fn range_of<T: Spanned>(t: &T) -> Range<usize> {
    t.span().byte_range()
}

// ---------------------------------------------------------------- selectors

#[derive(Debug)]
enum Sel {
    Fn(String),
    ImplFn { ty: String, tr: Option<String>, name: String },
    Impl { ty: String, tr: Option<String> },
    ImplConst { ty: String, name: String },
    Item { kind: String, name: String },
}

fn parse_selector(s: &str) -> Sel {
    let w: Vec<&str> = s.split_whitespace().collect();
    match w.as_slice() {
        ["fn", n] => Sel::Fn(n.to_string()),
        ["impl", ty, "fn", n] => Sel::ImplFn { ty: ty.to_string(), tr: None, name: n.to_string() },
        ["impl", tr, "for", ty, "fn", n] => {
            Sel::ImplFn { ty: ty.to_string(), tr: Some(tr.to_string()), name: n.to_string() }
        }
        ["impl", ty, "const", n] => Sel::ImplConst { ty: ty.to_string(), name: n.to_string() },
        ["impl", ty] => Sel::Impl { ty: ty.to_string(), tr: None },
        ["impl", tr, "for", ty] => Sel::Impl { ty: ty.to_string(), tr: Some(tr.to_string()) },
        [k, n] if ["struct", "enum", "const", "static", "trait", "type"].contains(k) => {
            Sel::Item { kind: k.to_string(), name: n.to_string() }
        }
        _ => fail(format!("bad selector {s:?}")),
    }
}

fn is_cfg_test(attrs: &[syn::Attribute]) -> bool {
    attrs.iter().any(|a| {
        a.path().is_ident("cfg") && {
            let s = a.meta.to_token_stream_string();
            s.contains("test") && !s.contains("not")
        }
    })
}

trait TsString {
    fn to_token_stream_string(&self) -> String;
}
impl<T: quote::ToTokens> TsString for T {
    fn to_token_stream_string(&self) -> String {
        self.to_token_stream().to_string()
    }
}

/// Normalised text of a type / trait path for selector matching: tokens joined
/// without whitespace, e.g. `RootRef<'_>`, `Result<(),Error>`, `From<Handle>`.
fn norm<T: quote::ToTokens>(t: &T) -> String {
    t.to_token_stream().to_string().replace(' ', "")
}

/// A selector type matches either the full normalised text or the last path
/// segment identifier (so `RootRef` matches `RootRef<'_>` and `RootRef<'fd>`).
fn ty_matches(ty: &syn::Type, want: &str) -> bool {
    if norm(ty) == want {
        return true;
    }
    if let syn::Type::Path(p) = ty {
        if let Some(seg) = p.path.segments.last() {
            return seg.ident == want;
        }
    }
    false
}
fn tr_matches(tr: &syn::Path, want: &str) -> bool {
    if norm(tr) == want {
        return true;
    }
    tr.segments.last().map(|s| s.ident == want).unwrap_or(false)
}

struct Found {
    range: Range<usize>,
    is_fn: bool,
}

fn find_in_items(items: &[syn::Item], sel: &Sel, out: &mut Vec<Found>) {
    for it in items {
        match it {
            syn::Item::Mod(m) => {
                if is_cfg_test(&m.attrs) {
                    continue;
                }
                if let Some((_, items)) = &m.content {
                    find_in_items(items, sel, out);
                }
            }
            syn::Item::Fn(f) => {
                if let Sel::Fn(n) = sel {
                    if f.sig.ident == n && !is_cfg_test(&f.attrs) {
                        out.push(Found { range: range_of(f), is_fn: true });
                    }
                }
            }
            syn::Item::Impl(im) => {
                if is_cfg_test(&im.attrs) {
                    continue;
                }
                if let Sel::ImplConst { ty, name } = sel {
                    if im.trait_.is_none() && ty_matches(&im.self_ty, ty) {
                        for ii in &im.items {
                            if let syn::ImplItem::Const(c) = ii {
                                if c.ident == name {
                                    out.push(Found { range: range_of(c), is_fn: false });
                                }
                            }
                        }
                    }
                    continue;
                }
                let (ty, tr) = match sel {
                    Sel::ImplFn { ty, tr, .. } => (ty, tr),
                    Sel::Impl { ty, tr } => (ty, tr),
                    _ => continue,
                };
                if !ty_matches(&im.self_ty, ty) {
                    continue;
                }
                match (&im.trait_, tr) {
                    (None, None) => {}
                    (Some((_, p, _)), Some(w)) if tr_matches(p, w) => {}
                    _ => continue,
                }
                match sel {
                    Sel::Impl { .. } => out.push(Found { range: range_of(im), is_fn: false }),
                    Sel::ImplFn { name, .. } => {
                        for ii in &im.items {
                            if let syn::ImplItem::Fn(f) = ii {
                                if f.sig.ident == name && !is_cfg_test(&f.attrs) {
                                    out.push(Found { range: range_of(f), is_fn: true });
                                }
                            }
                        }
                    }
                    _ => {}
                }
            }
            syn::Item::Trait(t) => {
                // `impl Trait fn name` also selects a provided method of a trait definition
                if let Sel::ImplFn { ty, tr: None, name } = sel {
                    if t.ident == ty {
                        for ti in &t.items {
                            if let syn::TraitItem::Fn(f) = ti {
                                if f.sig.ident == name {
                                    out.push(Found { range: range_of(f), is_fn: f.default.is_some() });
                                }
                            }
                        }
                    }
                }
                if let Sel::Item { kind, name } = sel {
                    if kind == "trait" && t.ident == name {
                        out.push(Found { range: range_of(t), is_fn: false });
                    }
                }
            }
            other => {
                if let Sel::Item { kind, name } = sel {
                    let (k, id, attrs): (&str, String, &[syn::Attribute]) = match other {
                        syn::Item::Struct(s) => ("struct", s.ident.to_string(), &s.attrs),
                        syn::Item::Enum(s) => ("enum", s.ident.to_string(), &s.attrs),
                        syn::Item::Const(s) => ("const", s.ident.to_string(), &s.attrs),
                        syn::Item::Static(s) => ("static", s.ident.to_string(), &s.attrs),
                        syn::Item::Type(s) => ("type", s.ident.to_string(), &s.attrs),
                        _ => continue,
                    };
                    if k == kind && &id == name && !is_cfg_test(attrs) {
                        out.push(Found { range: range_of(other), is_fn: false });
                    }
                }
            }
        }
    }
}

// ---------------------------------------------------------------- edits

#[derive(Debug, Clone)]
pub struct Edit {
    pub range: Range<usize>,
    pub rep: String,
    pub rule: String,
}

pub fn apply_edits(src: &str, mut edits: Vec<Edit>) -> String {
    edits.sort_by_key(|e| e.range.start);
    let mut out = String::with_capacity(src.len() + 64);
    let mut pos = 0;
    for e in edits {
        if e.range.start < pos {
            continue; // overlapping (inner) edit: handled on the next pass
        }
        out.push_str(&src[pos..e.range.start]);
        out.push_str(&e.rep);
        pos = e.range.end;
    }
    out.push_str(&src[pos..]);
    out
}

// ---------------------------------------------------------------- metadata

struct LoopFinder {
    loops: Vec<(usize, usize, &'static str)>,
}
impl<'ast> Visit<'ast> for LoopFinder {
    fn visit_expr_while(&mut self, n: &'ast syn::ExprWhile) {
        self.loops.push((
            n.while_token.span.byte_range().start,
            n.body.brace_token.span.open().byte_range().start,
            "while",
        ));
        visit::visit_expr_while(self, n);
    }
    fn visit_expr_loop(&mut self, n: &'ast syn::ExprLoop) {
        self.loops.push((
            n.loop_token.span.byte_range().start,
            n.body.brace_token.span.open().byte_range().start,
            "loop",
        ));
        visit::visit_expr_loop(self, n);
    }
    fn visit_expr_for_loop(&mut self, n: &'ast syn::ExprForLoop) {
        self.loops.push((
            n.for_token.span.byte_range().start,
            n.body.brace_token.span.open().byte_range().start,
            "for",
        ));
        visit::visit_expr_for_loop(self, n);
    }
}

fn main() {
    let mut input = String::new();
    std::io::stdin().read_to_string(&mut input).unwrap();
    let job: serde_json::Value = serde_json::from_str(&input).unwrap_or_else(|e| fail(format!("bad job: {e}")));
    let file = job["file"].as_str().unwrap_or_else(|| fail("no file".into()));
    let selector = job["selector"].as_str().unwrap_or_else(|| fail("no selector".into()));
    let rules: Vec<String> = job["rules"]
        .as_array()
        .map(|a| a.iter().filter_map(|x| x.as_str().map(|s| s.to_string())).collect())
        .unwrap_or_default();
    let src = std::fs::read_to_string(file).unwrap_or_else(|e| fail(format!("lost anchor: cannot read {file}: {e}")));
    let ast = syn::parse_file(&src).unwrap_or_else(|e| fail(format!("lost anchor: {file} does not parse: {e}")));
    let sel = parse_selector(selector);
    let mut found = Vec::new();
    find_in_items(&ast.items, &sel, &mut found);
    let nth = job["nth"].as_u64();
    let f = match (found.len(), nth) {
        (0, _) => fail(format!("lost anchor: {selector:?} not found in {file}")),
        (1, None) => &found[0],
        (n, Some(k)) if (k as usize) < n => &found[k as usize],
        (n, _) => fail(format!("lost anchor: {selector:?} matches {n} items in {file}")),
    };
    let orig = src[f.range.clone()].to_string();
    let start_line = src[..f.range.start].matches('\n').count() + 1;

    let mut fired: BTreeMap<String, u64> = BTreeMap::new();
    let mut work = orig.clone();

    // phase "pre" substitutions (patterns are written against repository text)
    let substs = job["substs"].as_array().cloned().unwrap_or_default();
    for phase in ["pre", "post"] {
        if phase == "post" && f.is_fn {
            work = rules::run_rules(&work, &rules, &job["hints"], &mut fired).unwrap_or_else(|e| fail(e));
        }
        for s in &substs {
            let ph = s["phase"].as_str().unwrap_or("pre");
            if ph != phase {
                continue;
            }
            let name = s["name"].as_str().unwrap_or("subst");
            let pat = s["pat"].as_str().unwrap_or("");
            let rep = s["rep"].as_str().unwrap_or("");
            let want = s["count"].as_u64();
            let any_count = s["count"].as_str() == Some("*");
            let (nw, n) = subst::apply(&work, pat, rep).unwrap_or_else(|e| fail(format!("lost anchor: subst {name}: {e}")));
            match want {
                Some(w) if w != n as u64 => fail(format!(
                    "lost anchor: subst {name} in {selector:?} fired {n} times, expected {w}"
                )),
                None if n == 0 && !any_count => fail(format!("lost anchor: subst {name} in {selector:?} never fired")),
                _ => {}
            }
            *fired.entry(name.to_string()).or_insert(0) += n as u64;
            work = nw;
        }
    }

    let mut result = serde_json::json!({
        "ok": true, "orig": orig, "start_line": start_line, "fired": fired,
    });

    if f.is_fn {
        // strip attributes / qualifiers (R10) and compute metadata on the final text
        let parsed: syn::ImplItemFn = syn::parse_str(&work)
            .unwrap_or_else(|e| fail(format!("lost anchor: rewritten text of {selector:?} does not parse: {e}\n{work}")));
        let mut edits = Vec::new();
        let mut dropped = Vec::new();
        for a in &parsed.attrs {
            let r = range_of(a);
            dropped.push(work[r.clone()].lines().next().unwrap_or("").to_string());
            edits.push(Edit { range: r, rep: String::new(), rule: "R10".into() });
        }
        if let Some(u) = &parsed.sig.unsafety {
            edits.push(Edit { range: u.span.byte_range(), rep: String::new(), rule: "R10".into() });
            dropped.push("unsafe".into());
        }
        if let Some(a) = &parsed.sig.abi {
            edits.push(Edit { range: range_of(a), rep: String::new(), rule: "R10".into() });
            dropped.push("extern".into());
        }
        if !edits.is_empty() {
            work = apply_edits(&work, edits);
        }
        let parsed: syn::ImplItemFn = syn::parse_str(&work)
            .unwrap_or_else(|e| fail(format!("lost anchor: final text of {selector:?} does not parse: {e}")));
        let body_open = parsed.block.brace_token.span.open().byte_range().start;
        let ret = match &parsed.sig.output {
            syn::ReturnType::Default => serde_json::Value::Null,
            syn::ReturnType::Type(_, t) => {
                let r = range_of(&**t);
                serde_json::json!([r.start, r.end])
            }
        };
        let has_self = parsed.sig.receiver().is_some();
        let mut lf = LoopFinder { loops: vec![] };
        lf.visit_block(&parsed.block);
        lf.loops.sort();
        let loops: Vec<_> = lf
            .loops
            .iter()
            .map(|(k, b, kind)| serde_json::json!({"kw": k, "body_open": b, "kind": kind}))
            .collect();
        // start of the function body's final statement (anchor `fn tail`)
        let tail = parsed.block.stmts.last().map(|st| range_of(st).start);
        result["sig"] = serde_json::json!({"body_open": body_open, "ret": ret, "has_self": has_self,
                                          "name": parsed.sig.ident.to_string(), "tail": tail});
        result["loops"] = serde_json::Value::Array(loops);
        result["dropped_attrs"] = serde_json::json!(dropped);
    }
    if !f.is_fn && rules.iter().any(|r| r == "R10strip") {
        // drop every attribute of an extracted enum/struct and of its variants/fields
        // (derive lists, thiserror's #[error(..)], #[repr(C)], doc comments): no run-time meaning
        let mut edits = Vec::new();
        if let Ok(en) = syn::parse_str::<syn::ItemEnum>(&work) {
            for a in &en.attrs { edits.push(Edit { range: range_of(a), rep: String::new(), rule: "R10strip".into() }); }
            for v in &en.variants {
                for a in &v.attrs { edits.push(Edit { range: range_of(a), rep: String::new(), rule: "R10strip".into() }); }
                for fl in v.fields.iter() { for a in &fl.attrs { edits.push(Edit { range: range_of(a), rep: String::new(), rule: "R10strip".into() }); } }
            }
        } else if let Ok(st) = syn::parse_str::<syn::ItemStruct>(&work) {
            for a in &st.attrs { edits.push(Edit { range: range_of(a), rep: String::new(), rule: "R10strip".into() }); }
            for fl in st.fields.iter() { for a in &fl.attrs { edits.push(Edit { range: range_of(a), rep: String::new(), rule: "R10strip".into() }); } }
        }
        let n = edits.len() as u64;
        work = apply_edits(&work, edits);
        let mut fired2: BTreeMap<String, u64> = serde_json::from_value(result["fired"].clone()).unwrap_or_default();
        *fired2.entry("R10strip".into()).or_insert(0) += n;
        result["fired"] = serde_json::json!(fired2);
    }
    if !f.is_fn && rules.iter().any(|r| r == "R10pub") {
        // widen field visibility of an extracted struct (Verus treats a struct with private
        // fields as opaque in contracts); visibility has no run-time meaning
        if let Ok(tr) = syn::parse_str::<syn::ItemTrait>(&work) {
            if let syn::Visibility::Restricted(r) = &tr.vis {
                let rg = range_of(r);
                work = apply_edits(&work, vec![Edit { range: rg, rep: "pub".into(), rule: "R10pub".into() }]);
            }
        }
        if let Ok(en) = syn::parse_str::<syn::ItemEnum>(&work) {
            if let syn::Visibility::Restricted(r) = &en.vis {
                let rg = range_of(r);
                work = apply_edits(&work, vec![Edit { range: rg, rep: "pub".into(), rule: "R10pub".into() }]);
            }
        }
        if let Ok(st) = syn::parse_str::<syn::ItemStruct>(&work) {
            if let syn::Visibility::Restricted(r) = &st.vis {
                let rg = range_of(r);
                work = apply_edits(&work, vec![Edit { range: rg, rep: "pub".into(), rule: "R10pub".into() }]);
            }
        }
        if let Ok(st) = syn::parse_str::<syn::ItemStruct>(&work) {
            let mut edits = Vec::new();
            for fld in st.fields.iter() {
                if matches!(fld.vis, syn::Visibility::Inherited) {
                    let at = match &fld.ident {
                        Some(id) => id.span().byte_range().start,
                        None => range_of(&fld.ty).start,
                    };
                    edits.push(Edit { range: at..at, rep: "pub ".into(), rule: "R10pub".into() });
                }
            }
            let n = edits.len() as u64;
            work = apply_edits(&work, edits);
            let mut fired2: BTreeMap<String, u64> = serde_json::from_value(result["fired"].clone()).unwrap_or_default();
            *fired2.entry("R10pub".into()).or_insert(0) += n;
            result["fired"] = serde_json::json!(fired2);
        }
    }
    result["text"] = serde_json::Value::String(work);
    println!("{}", result);
}

#[allow(dead_code)]
fn _unused(_: TokenStream, _: TokenTree, _: Delimiter) {
    let _ = TokenStream::from_str("");
}
