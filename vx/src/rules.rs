//! Syntax-directed rewrite rules (DESIGN.md section 3).  Each rule is local: it
//! looks at one AST node, and its replacement is assembled from the *source text*
//! of the node's children.  Rules run to a fixpoint (re-parse after every pass),
//! outermost node first.

use crate::{apply_edits, range_of, Edit};
use std::collections::BTreeMap;
use syn::visit::{self, Visit};

struct Finder<'s> {
    src: &'s str,
    rules: &'s [String],
    hints: &'s serde_json::Value,
    edits: Vec<Edit>,
    err: Option<String>,
}

impl<'s> Finder<'s> {
    fn on(&self, r: &str) -> bool {
        self.rules.iter().any(|x| x == r)
    }
    fn txt<T: syn::spanned::Spanned>(&self, t: &T) -> &'s str {
        &self.src[range_of(t)]
    }
    fn push(&mut self, range: std::ops::Range<usize>, rep: String, rule: &str) {
        self.edits.push(Edit { range, rep, rule: rule.to_string() });
    }
}

fn bytes_array(v: &[u8]) -> String {
    if v.is_empty() {
        "empty_bytes()".to_string()
    } else {
        let items: Vec<String> = v.iter().map(|b| format!("{b}u8")).collect();
        format!("(&[{}])", items.join(", "))
    }
}

fn expr_bytestr(e: &syn::Expr) -> Option<Vec<u8>> {
    match e {
        syn::Expr::Lit(l) => match &l.lit {
            syn::Lit::ByteStr(b) => Some(b.value()),
            _ => None,
        },
        syn::Expr::Paren(p) => expr_bytestr(&p.expr),
        syn::Expr::Reference(r) => expr_bytestr(&r.expr),
        _ => None,
    }
}

fn pat_has_bytestr(p: &syn::Pat) -> bool {
    match p {
        syn::Pat::Lit(l) => matches!(l.lit, syn::Lit::ByteStr(_)),
        syn::Pat::Tuple(t) => t.elems.iter().any(pat_has_bytestr),
        syn::Pat::Or(o) => o.cases.iter().any(pat_has_bytestr),
        syn::Pat::Paren(p) => pat_has_bytestr(&p.pat),
        syn::Pat::TupleStruct(t) => t.elems.iter().any(pat_has_bytestr),
        syn::Pat::Reference(r) => pat_has_bytestr(&r.pat),
        _ => false,
    }
}

/// condition and binders for matching `place` (an expression text) against `p`
fn pat_cond(p: &syn::Pat, place: &str, binds: &mut Vec<String>) -> Result<Option<String>, String> {
    match p {
        syn::Pat::Wild(_) => Ok(None),
        syn::Pat::Ident(i) => {
            if i.subpat.is_some() || i.by_ref.is_some() {
                return Err("R4: unsupported binder".into());
            }
            let m = if i.mutability.is_some() { "mut " } else { "" };
            binds.push(format!("let {m}{} = {place};", i.ident));
            Ok(None)
        }
        syn::Pat::Lit(l) => match &l.lit {
            syn::Lit::ByteStr(b) => Ok(Some(format!("bytes_eq({place}, {})", bytes_array(&b.value())))),
            _ => Err("R4: unsupported literal pattern".into()),
        },
        syn::Pat::Paren(pp) => pat_cond(&pp.pat, place, binds),
        syn::Pat::Tuple(t) => {
            let mut cs = Vec::new();
            for (k, e) in t.elems.iter().enumerate() {
                if let Some(c) = pat_cond(e, &format!("{place}.{k}"), binds)? {
                    cs.push(c);
                }
            }
            Ok(if cs.is_empty() { None } else { Some(cs.join(" && ")) })
        }
        syn::Pat::Or(o) => {
            let mut cs = Vec::new();
            for c in &o.cases {
                let mut b2 = Vec::new();
                match pat_cond(c, place, &mut b2)? {
                    Some(c) => cs.push(format!("({c})")),
                    None => return Ok(None),
                }
                if !b2.is_empty() {
                    return Err("R4: binder inside or-pattern".into());
                }
            }
            Ok(Some(cs.join(" || ")))
        }
        syn::Pat::TupleStruct(ts) if ts.path.is_ident("Some") && ts.elems.len() == 1 => {
            let inner = pat_cond(&ts.elems[0], &format!("{place}.unwrap()"), binds)?;
            Ok(Some(match inner {
                Some(c) => format!("({place}.is_some() && ({c}))"),
                None => format!("{place}.is_some()"),
            }))
        }
        _ => Err("R4: unsupported pattern".into()),
    }
}

fn closure_simple(c: &syn::ExprClosure) -> Option<Vec<String>> {
    // parameters must be plain identifiers / `_`; no `move`-sensitive captures matter here
    let mut names = Vec::new();
    for p in &c.inputs {
        match p {
            syn::Pat::Ident(i) if i.subpat.is_none() && i.by_ref.is_none() => {
                let m = if i.mutability.is_some() { "mut " } else { "" };
                names.push(format!("{m}{}", i.ident));
            }
            syn::Pat::Wild(_) => names.push("_".into()),
            _ => return None,
        }
    }
    Some(names)
}

struct EscapeFinder {
    found: bool,
}
impl<'ast> Visit<'ast> for EscapeFinder {
    fn visit_expr_try(&mut self, _: &'ast syn::ExprTry) {
        self.found = true;
    }
    fn visit_expr_return(&mut self, _: &'ast syn::ExprReturn) {
        self.found = true;
    }
    fn visit_expr_closure(&mut self, _: &'ast syn::ExprClosure) {}
}

/// escapes other than `?` and `return Err(..)` (those two keep their meaning when an `or_else` closure whose
/// result goes straight into `?` is inlined: `X.or_else(|e| B)?` == `match X { Ok(v) => v, Err(e) => (B)? }`
/// with the closure-level exits becoming function-level ones, the error type being the function's own)
struct HardEscapeFinder {
    found: bool,
}
impl<'ast> Visit<'ast> for HardEscapeFinder {
    fn visit_expr_return(&mut self, r: &'ast syn::ExprReturn) {
        let ok = match &r.expr {
            Some(e) => match &**e {
                syn::Expr::Call(c) => matches!(&*c.func, syn::Expr::Path(p) if p.path.is_ident("Err")),
                _ => false,
            },
            None => false,
        };
        if !ok {
            self.found = true;
        }
    }
    fn visit_expr_closure(&mut self, _: &'ast syn::ExprClosure) {}
}
fn body_escapes_hard(e: &syn::Expr) -> bool {
    let mut f = HardEscapeFinder { found: false };
    f.visit_expr(e);
    f.found
}

fn body_escapes(e: &syn::Expr) -> bool {
    let mut f = EscapeFinder { found: false };
    f.visit_expr(e);
    f.found
}

impl<'ast, 's> Visit<'ast> for Finder<'s> {
    fn visit_expr(&mut self, e: &'ast syn::Expr) {
        match e {
            // ---- R3: byte-string literals in expression position
            syn::Expr::Lit(l) if self.on("R3") => {
                if let syn::Lit::ByteStr(b) = &l.lit {
                    self.push(range_of(l), bytes_array(&b.value()), "R3");
                    return;
                }
            }
            // ---- R3: comparison with a byte-string literal
            syn::Expr::Binary(b) if self.on("R3") => {
                let is_eq = matches!(b.op, syn::BinOp::Eq(_));
                let is_ne = matches!(b.op, syn::BinOp::Ne(_));
                if is_eq || is_ne {
                    let (lit, other) = if let Some(v) = expr_bytestr(&b.right) {
                        (Some(v), &b.left)
                    } else if let Some(v) = expr_bytestr(&b.left) {
                        (Some(v), &b.right)
                    } else {
                        (None, &b.left)
                    };
                    if let Some(v) = lit {
                        let neg = if is_ne { "!" } else { "" };
                        self.push(
                            range_of(b),
                            format!("{neg}bytes_eq({}, {})", self.txt(&**other), bytes_array(&v)),
                            "R3",
                        );
                        return;
                    }
                }
            }
            // ---- R4: match with byte-string patterns
            syn::Expr::Match(m) if self.on("R4") && m.arms.iter().any(|a| pat_has_bytestr(&a.pat)) => {
                let mut out = format!("{{ let __m = {}; ", self.txt(&*m.expr));
                let n = m.arms.len();
                let mut closed = false;
                for (k, arm) in m.arms.iter().enumerate() {
                    if arm.guard.is_some() {
                        self.err = Some("lost anchor: R4 cannot handle match guards".into());
                        return;
                    }
                    let mut binds = Vec::new();
                    let cond = match pat_cond(&arm.pat, "__m", &mut binds) {
                        Ok(c) => c,
                        Err(e) => {
                            self.err = Some(format!("lost anchor: {e}"));
                            return;
                        }
                    };
                    let body = self.txt(&*arm.body);
                    let blk = format!("{{ {} {} }}", binds.join(" "), body);
                    match cond {
                        Some(c) => {
                            out.push_str(&format!("{}if {c} {blk} ", if k == 0 { "" } else { "else " }));
                        }
                        None => {
                            if k == 0 {
                                out.push_str(&format!("{blk} "));
                            } else {
                                out.push_str(&format!("else {blk} "));
                            }
                            closed = true;
                            if k != n - 1 {
                                // unreachable arms after an irrefutable one: keep Rust's first-match semantics
                            }
                            break;
                        }
                    }
                }
                if !closed {
                    self.err = Some("lost anchor: R4 needs a final irrefutable arm".into());
                    return;
                }
                out.push('}');
                self.push(range_of(m), out, "R4");
                return;
            }
            // ---- R6i: `I.[filter(|x| C).]map(|p| F).rev().for_each(|q| G)` over a DoubleEndedIterator:
            // Rev::next = next_back, Map::next_back = inner.next_back().map(f), Filter::next_back skips
            // the items that fail the predicate, for_each = loop until None (std definitions)
            syn::Expr::MethodCall(fe) if self.on("R6i") && fe.method == "for_each" && fe.args.len() == 1 => {
                if let (syn::Expr::Closure(g), syn::Expr::MethodCall(rv)) = (&fe.args[0], &*fe.receiver) {
                    if rv.method == "rev" && rv.args.is_empty() {
                        if let syn::Expr::MethodCall(mp) = &*rv.receiver {
                            if mp.method == "map" && mp.args.len() == 1 {
                                if let syn::Expr::Closure(f) = &mp.args[0] {
                                    let (inner, filt) = match &*mp.receiver {
                                        syn::Expr::MethodCall(fl) if fl.method == "filter" && fl.args.len() == 1 => {
                                            match &fl.args[0] {
                                                syn::Expr::Closure(c) => (&*fl.receiver, Some(c)),
                                                _ => (&*mp.receiver, None),
                                            }
                                        }
                                        other => (other, None),
                                    };
                                    if let (Some(gp), Some(fp)) = (closure_simple(g), closure_simple(f)) {
                                        if gp.len() == 1 && fp.len() == 1 && !body_escapes(&g.body) && !body_escapes(&f.body) {
                                            let mut guard = String::new();
                                            let mut ok = true;
                                            if let Some(c) = filt {
                                                match closure_simple(c) {
                                                    Some(cp) if cp.len() == 1 && !body_escapes(&c.body) => {
                                                        guard = format!("{{ let {} = &__it; if !({}) {{ continue; }} }} ", cp[0], self.txt(&*c.body));
                                                    }
                                                    _ => ok = false,
                                                }
                                            }
                                            if ok {
                                                let rep = format!(
                                                    "loop {{ match {}.next_back() {{ Some(__it) => {{ {}let {} = {{ let {} = __it; {} }}; {}; }} None => break, }} }}",
                                                    self.txt(inner), guard, gp[0], fp[0], self.txt(&*f.body), self.txt(&*g.body)
                                                );
                                                self.push(range_of(fe), rep, "R6i");
                                                return;
                                            }
                                        }
                                    }
                                }
                            }
                        }
                    }
                }
            }
            // ---- R10u: `unsafe { .. }` block -> `{ .. }` (the keyword has no run-time meaning)
            syn::Expr::Unsafe(u) if self.on("R10u") => {
                let r = u.unsafe_token.span.byte_range();
                self.push(r, String::new(), "R10u");
                // keep visiting the block on the next pass
                return;
            }
            // ---- R13: while let
            syn::Expr::While(w) if self.on("R13") => {
                if let syn::Expr::Let(l) = &*w.cond {
                    let label = w.label.as_ref().map(|l| format!("{} ", self.txt(l))).unwrap_or_default();
                    let rep = format!(
                        "{label}loop {{ match {} {{ {} => {} _ => break, }} }}",
                        self.txt(&*l.expr),
                        self.txt(&*l.pat),
                        self.txt(&w.body)
                    );
                    self.push(range_of(w), rep, "R13");
                    return;
                }
            }
            // ---- R15: counted for over `_`
            syn::Expr::ForLoop(f) if self.on("R15") => {
                // `_` or a plain identifier (bound to the value the counter had before the increment)
                let bind = match &*f.pat {
                    syn::Pat::Wild(_) => Some(String::new()),
                    syn::Pat::Ident(i) if i.subpat.is_none() && i.by_ref.is_none() => {
                        Some(format!("let {} = __i - 1; ", i.ident))
                    }
                    _ => None,
                };
                if let (Some(bind), syn::Expr::Range(r)) = (bind, &*f.expr) {
                    if let (Some(a), Some(b), syn::RangeLimits::HalfOpen(_)) = (&r.start, &r.end, &r.limits) {
                        let body = self.txt(&f.body);
                        // body text starts with '{'
                        let inner = &body[1..];
                        // the bound is evaluated once, like the range expression; contracts speak about `__n`, not about
                        // the literal the code happens to use
                        let rep = format!(
                            "{{ let __n = {}; let mut __i = {}; while __i < __n {{ __i += 1; {bind}{}",
                            self.txt(&**b),
                            self.txt(&**a),
                            inner
                        );
                        // close the extra block
                        self.push(range_of(f), format!("{rep} }}"), "R15");
                        return;
                    }
                }
            }
            // ---- R6c (iterator form): `<bytes>.iter().all(|&c| c == X)` / `.any(|&c| c == X)` on byte slices
            syn::Expr::MethodCall(mc)
                if self.on("R6c") && (mc.method == "all" || mc.method == "any") && mc.args.len() == 1
                    && matches!(&mc.args[0], syn::Expr::Closure(_))
                    && matches!(&*mc.receiver, syn::Expr::MethodCall(i) if i.method == "iter" && i.args.is_empty()) =>
            {
                if let (syn::Expr::Closure(cl), syn::Expr::MethodCall(it)) = (&mc.args[0], &*mc.receiver) {
                    if cl.inputs.len() == 1 {
                        let pat = self.txt(&cl.inputs[0]).replace(' ', "");
                        let (var, byref) = match pat.strip_prefix('&') { Some(v) => (v.to_string(), false), None => (pat.clone(), true) };
                        if let syn::Expr::Binary(b) = &*cl.body {
                            if matches!(b.op, syn::BinOp::Eq(_)) {
                                let l = self.txt(&*b.left).replace(' ', "");
                                let want = if byref { format!("*{var}") } else { var.clone() };
                                let r = self.txt(&*b.right);
                                if l == want && !r.contains(&var) {
                                    let f = if mc.method == "all" { "bytes_all_eq" } else { "bytes_contains" };
                                    self.push(range_of(mc), format!("{f}({}, {})", self.txt(&*it.receiver), r), "R6c");
                                    return;
                                }
                            }
                        }
                    }
                }
            }
            // ---- R6c: `<bytes>.contains(&X)` on byte slices
            syn::Expr::MethodCall(mc)
                if self.on("R6c") && mc.method == "contains" && mc.args.len() == 1
                    && matches!(&mc.args[0], syn::Expr::Reference(_)) =>
            {
                if let syn::Expr::Reference(r) = &mc.args[0] {
                    let rep = format!("bytes_contains({}, {})", self.txt(&*mc.receiver), self.txt(&*r.expr));
                    self.push(range_of(mc), rep, "R6c");
                    return;
                }
            }
            // ---- R1: `Path::new("<string literal>")`
            syn::Expr::Call(c) if self.on("R1") && c.args.len() == 1 => {
                let f = self.txt(&*c.func).replace(' ', "");
                if f == "PathBuf::from" {
                    if let syn::Expr::Lit(l) = &c.args[0] {
                        if let syn::Lit::Str(s) = &l.lit {
                            self.push(range_of(c), format!("pathbuf_lit({})", bytes_array(s.value().as_bytes())), "R1");
                            return;
                        }
                    }
                }
                if f == "Path::new" {
                    if let syn::Expr::Lit(l) = &c.args[0] {
                        if let syn::Lit::Str(s) = &l.lit {
                            self.push(range_of(c), format!("path_lit({})", bytes_array(s.value().as_bytes())), "R1");
                            return;
                        }
                    }
                }
            }
            // ---- R13f: `for PAT in ITER BODY` over an iterator value
            syn::Expr::ForLoop(f) if self.on("R13f") && !matches!(&*f.pat, syn::Pat::Wild(_)) => {
                let label = f.label.as_ref().map(|l| format!("{} ", self.txt(l))).unwrap_or_default();
                // `for (i, x) in E.into_iter().enumerate()`: the index is the iterator's position
                if let (syn::Pat::Tuple(tp), syn::Expr::MethodCall(en)) = (&*f.pat, &*f.expr) {
                    if tp.elems.len() == 2 && en.method == "enumerate" && en.args.is_empty() {
                        let inner = match &*en.receiver {
                            syn::Expr::MethodCall(ii) if ii.method == "into_iter" && ii.args.is_empty() => self.txt(&*ii.receiver),
                            other => self.txt(other),
                        };
                        let rep = format!(
                            "{{ let mut __it = into_iter_shim({}); {label}loop {{ let __idx = __it.pos; match __it.next() {{ Some({}) => {{ let {} = __idx; {} }} None => break, }} }} }}",
                            inner,
                            self.txt(&tp.elems[1]),
                            self.txt(&tp.elems[0]),
                            self.txt(&f.body)
                        );
                        self.push(range_of(f), rep, "R13f");
                        return;
                    }
                }
                let rep = format!(
                    "{{ let mut __it = into_iter_shim({}); {label}loop {{ match __it.next() {{ Some({}) => {} None => break, }} }} }}",
                    self.txt(&*f.expr),
                    self.txt(&*f.pat),
                    self.txt(&f.body)
                );
                self.push(range_of(f), rep, "R13f");
                return;
            }
            // ---- R14t: `RECV.or_else(|e| BODY)?` where BODY leaves through `?` / `return Err(..)`
            syn::Expr::Try(t) if self.on("R14") => {
                if let syn::Expr::MethodCall(mc) = &*t.expr {
                    if mc.method == "or_else" && mc.args.len() == 1 {
                        if let syn::Expr::Closure(c) = &mc.args[0] {
                            if let Some(ps) = closure_simple(c) {
                                if ps.len() == 1 && body_escapes(&c.body) && !body_escapes_hard(&c.body) {
                                    let rep = format!(
                                        "(match {} {{ Ok(__v) => __v, Err({}) => ({})? }})",
                                        self.txt(&*mc.receiver),
                                        ps[0],
                                        self.txt(&*c.body)
                                    );
                                    self.push(range_of(t), rep, "R14");
                                    return;
                                }
                            }
                        }
                    }
                }
            }
            // ---- R14: combinators with closure literals
            syn::Expr::MethodCall(mc)
                if self.on("R14") && mc.args.len() == 1 && matches!(&mc.args[0], syn::Expr::Closure(_)) =>
            {
                if let syn::Expr::Closure(c) = &mc.args[0] {
                    let m = mc.method.to_string();
                    if let Some(ps) = closure_simple(c) {
                        if !body_escapes(&c.body) {
                            let recv = self.txt(&*mc.receiver);
                            let body = self.txt(&*c.body);
                            let hint = self.hints.get(&m).and_then(|v| v.as_str()).unwrap_or("");
                            let rep = match (m.as_str(), ps.len()) {
                                ("map_err", 1) => Some(format!(
                                    "(match {recv} {{ Ok(__v) => Ok(__v), Err({}) => Err({body}) }})",
                                    ps[0]
                                )),
                                ("ok_or_else", 0) => Some(format!(
                                    "(match {recv} {{ Some(__v) => Ok(__v), None => Err({body}) }})"
                                )),
                                ("or_else", 1) => Some(format!(
                                    "(match {recv} {{ Ok(__v) => Ok(__v), Err({}) => {body} }})",
                                    ps[0]
                                )),
                                ("unwrap_or_else", 0) => Some(format!(
                                    "(match {recv} {{ Some(__v) => __v, None => {body} }})"
                                )),
                                ("unwrap_or_else", 1) => Some(format!(
                                    "(match {recv} {{ Ok(__v) => __v, Err({}) => {body} }})",
                                    ps[0]
                                )),
                                ("and_then", 1) if hint == "result" => Some(format!(
                                    "(match {recv} {{ Ok({}) => {body}, Err(__e) => Err(__e) }})",
                                    ps[0]
                                )),
                                ("and_then", 1) if hint == "option" => Some(format!(
                                    "(match {recv} {{ Some({}) => {body}, None => None }})",
                                    ps[0]
                                )),
                                ("map", 1) if hint == "result" => Some(format!(
                                    "(match {recv} {{ Ok({}) => Ok({body}), Err(__e) => Err(__e) }})",
                                    ps[0]
                                )),
                                ("map", 1) if hint == "option" => Some(format!(
                                    "(match {recv} {{ Some({}) => Some({body}), None => None }})",
                                    ps[0]
                                )),
                                _ => None,
                            };
                            if let Some(rep) = rep {
                                self.push(range_of(mc), rep, "R14");
                                return;
                            }
                        }
                    }
                }
            }
            syn::Expr::MethodCall(mc)
                if self.on("R14") && mc.args.len() == 1 && (mc.method == "map" || mc.method == "and_then")
                    && matches!(&mc.args[0], syn::Expr::Path(_)) =>
            {
                let m = mc.method.to_string();
                let hint = self.hints.get(&m).and_then(|v| v.as_str()).unwrap_or("");
                let recv = self.txt(&*mc.receiver);
                let f = self.txt(&mc.args[0]);
                let rep = match (m.as_str(), hint) {
                    ("map", "option") => Some(format!("(match {recv} {{ Some(__x) => Some({f}(__x)), None => None }})")),
                    ("map", "result") => Some(format!("(match {recv} {{ Ok(__x) => Ok({f}(__x)), Err(__e) => Err(__e) }})")),
                    ("and_then", "option") => Some(format!("(match {recv} {{ Some(__x) => {f}(__x), None => None }})")),
                    ("and_then", "result") => Some(format!("(match {recv} {{ Ok(__x) => {f}(__x), Err(__e) => Err(__e) }})")),
                    _ => None,
                };
                if let Some(rep) = rep {
                    self.push(range_of(mc), rep, "R14");
                    return;
                }
            }
            _ => {}
        }
        // ---- R5w: `.with_wrap(|| ..)` message closures are dropped
        if let syn::Expr::MethodCall(mc) = e {
            if self.on("R5") && mc.method == "with_wrap" {
                let start = mc.method.span().byte_range().start;
                let end = mc.paren_token.span.close().byte_range().end;
                // recurse into the receiver first on later passes: only edit the tail
                self.push(start..end, "with_wrap_dropped()".to_string(), "R5");
                self.visit_expr(&mc.receiver);
                return;
            }
        }
        visit::visit_expr(self, e);
    }

    fn visit_macro(&mut self, m: &'ast syn::Macro) {
        let name = m.path.segments.last().map(|s| s.ident.to_string()).unwrap_or_default();
        if self.on("R5") && name == "format" {
            self.push(range_of(m), "fmt_dropped()".to_string(), "R5");
            return;
        }
        if self.on("R4") && name == "matches" {
            // `matches!(E, P)` is defined as `match E { P => true, _ => false }`
            struct MArgs { e: syn::Expr, p: syn::Pat }
            impl syn::parse::Parse for MArgs {
                fn parse(input: syn::parse::ParseStream) -> syn::Result<Self> {
                    let e: syn::Expr = input.parse()?;
                    let _: syn::Token![,] = input.parse()?;
                    let p = syn::Pat::parse_multi_with_leading_vert(input)?;
                    let _ = input.parse::<Option<syn::Token![,]>>();
                    Ok(MArgs { e, p })
                }
            }
            match m.parse_body::<MArgs>() {
                Ok(a) => {
                    let rep = format!("(match {} {{ {} => true, _ => false }})", self.txt(&a.e), self.txt(&a.p));
                    self.push(range_of(m), rep, "R4");
                }
                Err(_) => self.err = Some("lost anchor: R4 cannot parse matches!".into()),
            }
            return;
        }
        if self.on("R9") && (name == "assert" || name == "debug_assert") {
            let parser = syn::punctuated::Punctuated::<syn::Expr, syn::Token![,]>::parse_terminated;
            match m.parse_body_with(parser) {
                Ok(args) if !args.is_empty() => {
                    let c = self.txt(&args[0]);
                    let f = if name == "debug_assert" { "debug_assert_shim" } else { "runtime_assert" };
                    self.push(range_of(m), format!("{f}({c})"), "R9");
                }
                _ => self.err = Some("lost anchor: R9 cannot parse assert!".into()),
            }
            return;
        }
        visit::visit_macro(self, m);
    }
}

/// R17: `fn f(P) -> R { S..; || -> Result<_, Error> { B }().into_c_return() }` becomes the hoisted body
/// `fn f__body(P) -> Result<T, Error> { S..; B }` (T from the hint `r17_ret`); the dropped wrapper is
/// `f(P) = f__body(P).into_c_return()`.  `?` inside the closure returns from the closure, so the
/// hoisted function is the exact desugaring; the statements S.. run in the same order.
fn apply_r17(text: &str, hints: &serde_json::Value) -> Result<String, String> {
    let f: syn::ImplItemFn = syn::parse_str(text).map_err(|e| format!("lost anchor: R17: function does not parse: {e}"))?;
    let ret = hints.get("r17_ret").and_then(|v| v.as_str()).ok_or("lost anchor: R17 needs the hint r17_ret")?;
    let stmts = &f.block.stmts;
    let last = stmts.last().ok_or("lost anchor: R17: empty body")?;
    let tail = match last {
        syn::Stmt::Expr(e, None) => e,
        _ => return Err("lost anchor: R17: the body does not end in an expression".into()),
    };
    let mc = match tail {
        syn::Expr::MethodCall(mc) if mc.method == "into_c_return" && mc.args.is_empty() => mc,
        _ => return Err("lost anchor: R17: the body does not end in `<closure>().into_c_return()`".into()),
    };
    // allow adapters between the closure call and into_c_return, e.g. `.map(OwnedFd::from)`
    let mut recv = &*mc.receiver;
    while let syn::Expr::MethodCall(inner) = recv {
        recv = &*inner.receiver;
    }
    let call = match recv {
        syn::Expr::Call(c) if c.args.is_empty() => c,
        _ => return Err("lost anchor: R17: receiver of into_c_return is not an immediately invoked closure".into()),
    };
    let mut func = &*call.func;
    while let syn::Expr::Paren(p) = func {
        func = &*p.expr;
    }
    let clo = match func {
        syn::Expr::Closure(c) if c.inputs.is_empty() => c,
        _ => return Err("lost anchor: R17: callee is not a parameterless closure".into()),
    };
    let body = match &*clo.body {
        syn::Expr::Block(b) => &b.block,
        _ => return Err("lost anchor: R17: closure body is not a block".into()),
    };
    for s in &stmts[..stmts.len() - 1] {
        if !matches!(s, syn::Stmt::Local(_)) {
            return Err("lost anchor: R17: statements before the closure must be `let` bindings".into());
        }
    }
    // assemble: signature text up to the return type, new return type, `{`, leading lets, closure block contents
    let sig_end = match &f.sig.output {
        syn::ReturnType::Type(arrow, _) => arrow.spans[0].byte_range().start,
        syn::ReturnType::Default => f.block.brace_token.span.open().byte_range().start,
    };
    let name = f.sig.ident.to_string();
    let id_r = f.sig.ident.span().byte_range();
    let mut head = String::new();
    head.push_str(&text[..id_r.start]);
    head.push_str(&format!("{name}__body"));
    head.push_str(&text[id_r.end..sig_end]);
    let mut out = head;
    out.push_str(&format!("-> Result<{ret}, Error> {{\n"));
    if stmts.len() > 1 {
        let a = range_of(&stmts[0]).start;
        let b = range_of(&stmts[stmts.len() - 2]).end;
        out.push_str("    ");
        out.push_str(&text[a..b]);
        out.push('\n');
    }
    let bo = body.brace_token.span.open().byte_range().end;
    let bc = body.brace_token.span.close().byte_range().start;
    out.push_str(&text[bo..bc]);
    out.push_str("}\n");
    Ok(out)
}

pub fn run_rules(
    text: &str,
    rules: &[String],
    hints: &serde_json::Value,
    fired: &mut BTreeMap<String, u64>,
) -> Result<String, String> {
    let mut work = text.to_string();
    if rules.is_empty() {
        return Ok(work);
    }
    if rules.iter().any(|r| r == "R17") {
        work = apply_r17(&work, hints)?;
        *fired.entry("R17".into()).or_insert(0) += 1;
    }
    for _pass in 0..400 {
        let parsed: syn::ImplItemFn = syn::parse_str(&work)
            .map_err(|e| format!("lost anchor: function text does not parse during rewriting: {e}\n{work}"))?;
        let mut f = Finder { src: &work, rules, hints, edits: vec![], err: None };
        f.visit_impl_item_fn(&parsed);
        if let Some(e) = f.err {
            return Err(e);
        }
        if f.edits.is_empty() {
            return Ok(work);
        }
        // count only the edits that are applied on this pass (non-overlapping, outermost first)
        let mut edits = f.edits;
        edits.sort_by_key(|e| (e.range.start, std::cmp::Reverse(e.range.end)));
        let mut applied = Vec::new();
        let mut pos = 0;
        for e in edits {
            if e.range.start >= pos {
                pos = e.range.end;
                *fired.entry(e.rule.clone()).or_insert(0) += 1;
                applied.push(e);
            }
        }
        work = apply_edits(&work, applied);
    }
    Err("lost anchor: rewrite rules did not reach a fixpoint".into())
}
