//! Token-tree pattern substitution.
//!
//! A pattern is Rust token text; identifiers `__1`, `__2`, … are captures that
//! match one or more token trees (shortest match first, with backtracking; the
//! last element of a group may take the rest).  Comments and whitespace are
//! irrelevant.  The replacement is plain text in which `__N` is replaced by the
//! *source text* of capture N.  Matching is attempted at every position of every
//! nesting level; matches do not overlap.

use proc_macro2::{TokenStream, TokenTree};
use std::ops::Range;
use std::str::FromStr;

fn capture_index(tt: &TokenTree) -> Option<usize> {
    if let TokenTree::Ident(i) = tt {
        let s = i.to_string();
        if let Some(d) = s.strip_prefix("__") {
            if !d.is_empty() && d.chars().all(|c| c.is_ascii_digit()) {
                return d.parse().ok();
            }
        }
    }
    None
}

fn tt_range(tt: &TokenTree) -> Range<usize> {
    tt.span().byte_range()
}

type Caps = Vec<Option<Range<usize>>>;

fn tt_eq(p: &TokenTree, s: &TokenTree, caps: &mut Caps) -> bool {
    match (p, s) {
        (TokenTree::Ident(a), TokenTree::Ident(b)) => a == b,
        (TokenTree::Punct(a), TokenTree::Punct(b)) => a.as_char() == b.as_char(),
        (TokenTree::Literal(a), TokenTree::Literal(b)) => a.to_string() == b.to_string(),
        (TokenTree::Group(a), TokenTree::Group(b)) => {
            if a.delimiter() != b.delimiter() {
                return false;
            }
            let pv: Vec<TokenTree> = a.stream().into_iter().collect();
            let sv: Vec<TokenTree> = b.stream().into_iter().collect();
            match match_seq(&pv, &sv, 0, caps, true) {
                Some(n) => n == sv.len(),
                None => false,
            }
        }
        _ => false,
    }
}

/// Try to match pattern `p` at `s[at..]`; returns the index one past the match.
/// With `anchored_end`, the match must consume `s` to its end.
fn match_seq(p: &[TokenTree], s: &[TokenTree], at: usize, caps: &mut Caps, anchored_end: bool) -> Option<usize> {
    if p.is_empty() {
        return if !anchored_end || at == s.len() { Some(at) } else { None };
    }
    if let Some(ci) = capture_index(&p[0]) {
        // one or more token trees, shortest first
        let mut end = at + 1;
        while end <= s.len() {
            let saved = caps.clone();
            if caps.len() <= ci {
                caps.resize(ci + 1, None);
            }
            caps[ci] = Some(tt_range(&s[at]).start..tt_range(&s[end - 1]).end);
            if let Some(n) = match_seq(&p[1..], s, end, caps, anchored_end) {
                return Some(n);
            }
            *caps = saved;
            end += 1;
        }
        return None;
    }
    if at >= s.len() {
        return None;
    }
    let saved = caps.clone();
    if tt_eq(&p[0], &s[at], caps) {
        if let Some(n) = match_seq(&p[1..], s, at + 1, caps, anchored_end) {
            return Some(n);
        }
    }
    *caps = saved;
    None
}

struct Match {
    range: Range<usize>,
    caps: Caps,
}

fn search(p: &[TokenTree], s: &[TokenTree], out: &mut Vec<Match>) {
    let mut i = 0;
    while i < s.len() {
        let mut caps: Caps = Vec::new();
        if let Some(end) = match_seq(p, s, i, &mut caps, false) {
            if end > i {
                out.push(Match { range: tt_range(&s[i]).start..tt_range(&s[end - 1]).end, caps });
                i = end;
                continue;
            }
        }
        if let TokenTree::Group(g) = &s[i] {
            let inner: Vec<TokenTree> = g.stream().into_iter().collect();
            search(p, &inner, out);
        }
        i += 1;
    }
}

pub fn apply(src: &str, pat: &str, rep: &str) -> Result<(String, usize), String> {
    let ps = TokenStream::from_str(pat).map_err(|e| format!("pattern does not tokenize: {e}"))?;
    let ss = TokenStream::from_str(src).map_err(|e| format!("source does not tokenize: {e}"))?;
    let pv: Vec<TokenTree> = ps.into_iter().collect();
    let sv: Vec<TokenTree> = ss.into_iter().collect();
    if pv.is_empty() {
        return Err("empty pattern".into());
    }
    let mut ms = Vec::new();
    search(&pv, &sv, &mut ms);
    let mut out = String::new();
    let mut pos = 0;
    for (ord, m) in ms.iter().enumerate() {
        out.push_str(&src[pos..m.range.start]);
        // replacement with captures (longest index first so __10 is not eaten by __1);
        // `__ORD` is the 1-based ordinal of this match in textual order (rule R18)
        let mut r = rep.replace("__ORD", &format!("{}", ord + 1));
        for ci in (0..m.caps.len()).rev() {
            if let Some(cr) = &m.caps[ci] {
                r = r.replace(&format!("__{ci}"), &src[cr.clone()]);
            }
        }
        out.push_str(&r);
        pos = m.range.end;
    }
    out.push_str(&src[pos..]);
    Ok((out, ms.len()))
}
