
// Finding on the UNMODIFIED library (no patch needed): append this module to
// src/lib.rs and run
//     cargo test --offline --lib c12_r2_unmodified_deep_path
// Both tests FAIL on the unmodified tree.
//
// mkdir_all is not idempotent once the absolute path of the deepest existing
// directory is longer than PATH_MAX: the first call creates everything and
// succeeds, a second call for the very same path fails, because the handle of
// the existing directory is re-opened (openat2 backend: ENOTDIR from
// Handle::reopen via /proc/thread-self/fd/N) or checked (O_PATH backend:
// ENAMETOOLONG from check_current's readlink of /proc/thread-self/fd/N) through
// procfs and the kernel cannot produce a link target longer than PATH_MAX.  The
// path argument itself (4090 bytes) is shorter than PATH_MAX, so it is a valid
// argument for every syscall involved.
//
// Since "call 1 runs to completion, then call 2 runs" is one of the legal
// interleavings of two concurrent calls, this also contradicts "Concurrent
// mkdir_all calls for the same or overlapping paths all succeed".
#[cfg(test)]
mod c12_r2_unmodified_deep_path {
    use crate::{resolvers::ResolverBackend, Root};
    use std::{fs, os::unix::fs::PermissionsExt};

    /// A relative path of exactly `total` bytes made of 200-byte components.
    fn deep_path(total: usize) -> String {
        let mut path = String::new();
        while path.len() + 201 <= total - 10 {
            if !path.is_empty() {
                path.push('/');
            }
            path.push_str(&"d".repeat(200));
        }
        let rest = total - path.len() - 1;
        path.push('/');
        path.push_str(&"e".repeat(rest));
        assert_eq!(path.len(), total);
        path
    }

    fn check(backend: ResolverBackend) {
        if !backend.supported() {
            return;
        }
        let tmp = tempfile::TempDir::new().unwrap();
        let rootdir = tmp.path().join("root");
        fs::create_dir(&rootdir).unwrap();
        let root = Root::open(&rootdir).unwrap().with_resolver_backend(backend);
        // 4090 < PATH_MAX, but rootdir + "/" + path is longer than PATH_MAX.
        let path = deep_path(4090);
        let perm = fs::Permissions::from_mode(0o755);

        root.mkdir_all(&path, &perm)
            .expect("the first mkdir_all creates the whole tree and succeeds");

        let second = root.mkdir_all(&path, &perm);
        assert!(
            second.is_ok(),
            "{backend:?}: second mkdir_all of the same (now existing) {}-byte path failed: {:?}",
            path.len(),
            second.err().map(|e| format!("{e} (kind {:?})", e.kind()))
        );
    }

    #[test]
    fn second_call_fails_openat2() {
        check(ResolverBackend::KernelOpenat2);
    }

    #[test]
    fn second_call_fails_opath() {
        check(ResolverBackend::EmulatedOpath);
    }
}
