
// ---- C17 observation on the UNMODIFIED tree: appended to src/lib.rs ----
// Run with: cargo test --offline --features capi --lib c17_unmodified_invalid_mode
//
// Each test asserts the C17 clause "an invalid mode returns an error id". They
// FAIL on the unmodified library: the mode is silently accepted instead.
#[cfg(all(test, feature = "capi"))]
mod c17_unmodified_invalid_mode {
    use crate::capi::core;

    use std::{ffi::CString, fs::File, os::unix::io::AsFd};

    fn setup() -> (tempfile::TempDir, File) {
        let dir = tempfile::TempDir::new().expect("tempdir");
        let root = File::open(dir.path()).expect("open root");
        (dir, root)
    }

    // For reference: the one function that *does* validate (passes).
    #[test]
    fn c17_unmodified_invalid_mode_mkdir_all_is_rejected() {
        let (_dir, root) = setup();
        let path = CString::new("a/b").unwrap();
        let ret = unsafe {
            core::pathrs_inroot_mkdir_all(root.as_fd().into(), path.as_ptr(), libc::S_IFREG | 0o755)
        };
        assert!(ret <= -4096, "mkdir_all(S_IFREG|0755) should be an error id, got {ret}");
    }

    #[test]
    fn c17_unmodified_invalid_mode_creat_type_bits() {
        let (dir, root) = setup();
        let path = CString::new("f").unwrap();
        // A "directory" mode given to creat.
        let ret = unsafe {
            core::pathrs_inroot_creat(
                root.as_fd().into(),
                path.as_ptr(),
                libc::O_WRONLY,
                libc::S_IFDIR | 0o644,
            )
        };
        let kind = dir.path().join("f").symlink_metadata().map(|m| m.file_type());
        assert!(
            ret <= -4096,
            "creat(S_IFDIR|0644) should be an error id, got {ret} (created: {kind:?})"
        );
    }

    #[test]
    fn c17_unmodified_invalid_mode_creat_garbage_bits() {
        let (_dir, root) = setup();
        let path = CString::new("f").unwrap();
        // Same garbage value the test-suite uses for mkdir_all(invalid_mode_garbage).
        let ret = unsafe {
            core::pathrs_inroot_creat(root.as_fd().into(), path.as_ptr(), libc::O_WRONLY, 0o12340777)
        };
        assert!(ret <= -4096, "creat(0o12340777) should be an error id, got {ret}");
    }

    #[test]
    fn c17_unmodified_invalid_mode_mkdir_type_bits() {
        let (dir, root) = setup();
        let path = CString::new("d").unwrap();
        let ret = unsafe {
            core::pathrs_inroot_mkdir(root.as_fd().into(), path.as_ptr(), libc::S_IFCHR | 0o755)
        };
        let kind = dir.path().join("d").symlink_metadata().map(|m| m.file_type());
        assert!(
            ret <= -4096,
            "mkdir(S_IFCHR|0755) should be an error id, got {ret} (created: {kind:?})"
        );
    }

    #[test]
    fn c17_unmodified_invalid_mode_mknod_garbage_bits() {
        let (_dir, root) = setup();
        let path = CString::new("n").unwrap();
        // Valid S_IFMT, but bits outside of S_IFMT|0o7777 are set.
        let ret = unsafe {
            core::pathrs_inroot_mknod(
                root.as_fd().into(),
                path.as_ptr(),
                0o12200000 | libc::S_IFREG | 0o644,
                0,
            )
        };
        assert!(ret <= -4096, "mknod(0o12200000|S_IFREG|0644) should be an error id, got {ret}");
    }
}
