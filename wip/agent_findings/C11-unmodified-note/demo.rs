
// ---------------------------------------------------------------------------
// C11 note on the UNMODIFIED tree: the first libpathrs call that needs procfs
// (here Handle::reopen) lazily creates GLOBAL_PROCFS_HANDLE, a private procfs
// mount descriptor that is not returned to the caller and stays open for the
// rest of the process' life. Read literally ("the set of open descriptors is
// the same as before the call plus at most the one descriptor being returned")
// that first call does not satisfy C11; every later call does. The descriptor
// is close-on-exec, so this is benign and obviously by design, but a checker of
// C11 has to carve it out (warm-up / explicit exemption).
//
// Run with:
//   cargo test --offline --lib c11_note_global_procfs_handle
// The test FAILS on the unmodified tree (it asserts the literal property).
// ---------------------------------------------------------------------------
#[cfg(test)]
#[allow(unsafe_code)]
mod c11_note_global_procfs_handle {
    use crate::{flags::OpenFlags, Root};

    use std::collections::BTreeSet;

    fn open_fds() -> BTreeSet<i32> {
        let listed: Vec<i32> = std::fs::read_dir("/proc/self/fd")
            .expect("list /proc/self/fd")
            .filter_map(|ent| ent.ok()?.file_name().to_str()?.parse().ok())
            .collect();
        listed
            .into_iter()
            .filter(|&fd| unsafe { libc::fcntl(fd, libc::F_GETFD) } != -1)
            .collect()
    }

    #[test]
    fn c11_note_global_procfs_handle() {
        let dir = tempfile::TempDir::new().expect("tempdir");
        let before = open_fds();
        {
            let root = Root::open(dir.path()).expect("open root");
            let handle = root.resolve(".").expect("resolve");
            let file = handle.reopen(OpenFlags::O_RDONLY).expect("first reopen");
            drop((file, handle, root));
        }
        let after_first = open_fds();
        let extra: Vec<_> = after_first.difference(&before).copied().collect();
        for &fd in &extra {
            eprintln!(
                "left open by the first call: fd {fd} -> {:?} (fd flags 0x{:x})",
                std::fs::read_link(format!("/proc/self/fd/{fd}")),
                unsafe { libc::fcntl(fd, libc::F_GETFD) }
            );
        }
        // Every later call is clean.
        {
            let root = Root::open(dir.path()).expect("open root");
            let handle = root.resolve(".").expect("resolve");
            let file = handle.reopen(OpenFlags::O_RDONLY).expect("second reopen");
            drop((file, handle, root));
        }
        assert_eq!(open_fds(), after_first, "later calls must not change the fd table");
        assert!(
            extra.is_empty(),
            "the first call left descriptors {extra:?} open that were not returned to the caller"
        );
    }
}
