
// ---- C04 round-2: divergences of the UNMODIFIED library: append to src/lib.rs ----
// Run with: cargo test --offline --lib c04r2_existing
#[cfg(test)]
mod c04r2_existing_demo {
    use crate::{error::ErrorKind, flags::OpenFlags, resolvers::ResolverBackend, Root};

    use std::os::unix::io::AsRawFd;

    fn roots(path: &str) -> (Root, Root) {
        (
            Root::open(path)
                .expect("open root")
                .with_resolver_backend(ResolverBackend::KernelOpenat2),
            Root::open(path)
                .expect("open root")
                .with_resolver_backend(ResolverBackend::EmulatedOpath),
        )
    }

    /// A procfs magic-link whose readlink() text is not an absolute path
    /// ("pipe:[1234]", "socket:[1234]", "anon_inode:[eventfd]") is not
    /// recognised as a magic-link by the emulated resolver, which then walks the
    /// text as a relative path and reports ENOENT where openat2 reports ELOOP.
    #[test]
    fn c04r2_existing_magiclink_to_socket() {
        if !ResolverBackend::KernelOpenat2.supported() {
            return;
        }
        let (rd, _wr) = std::os::unix::net::UnixStream::pair().expect("create socketpair");
        let path = format!("self/fd/{}", rd.as_raw_fd());

        let (kernel, emulated) = roots("/proc");
        let got_kernel = kernel.resolve(&path).map(|_| ()).map_err(|e| e.kind());
        let got_emulated = emulated.resolve(&path).map(|_| ()).map_err(|e| e.kind());
        assert_eq!(
            got_kernel,
            Err(ErrorKind::OsError(Some(libc::ELOOP))),
            "openat2 result"
        );
        assert_eq!(got_kernel, got_emulated, "resolve({path:?}) differs");
    }

    /// O_TMPFILE is accepted by openat2 (it creates an unnamed file in the
    /// directory), but the emulated one-shot open goes through
    /// ProcfsHandle::open_follow which refuses it with InvalidArgument.
    #[test]
    fn c04r2_existing_oneshot_open_tmpfile() {
        if !ResolverBackend::KernelOpenat2.supported() {
            return;
        }
        let dir = tempfile::TempDir::new().expect("tempdir");
        std::fs::create_dir(dir.path().join("d")).expect("mkdir");
        let (kernel, emulated) = roots(dir.path().to_str().unwrap());

        let oflags = OpenFlags::O_TMPFILE | OpenFlags::O_RDWR;
        let got_kernel = kernel.open_subpath("d", oflags).map(|_| ()).map_err(|e| e.kind());
        let got_emulated = emulated.open_subpath("d", oflags).map(|_| ()).map_err(|e| e.kind());
        assert_eq!(got_kernel, got_emulated, "open_subpath(\"d\", O_TMPFILE|O_RDWR) differs");
    }

    /// The one-shot openat2 open does not retry on EAGAIN (unlike
    /// openat2::resolve, which retries 16 times), so with a rename happening
    /// anywhere on the system during a lookup containing ".." the kernel
    /// backend fails with EAGAIN where the emulated backend succeeds.
    #[test]
    fn c04r2_existing_oneshot_open_eagain_under_renames() {
        use std::sync::{atomic::{AtomicBool, Ordering}, Arc};
        if !ResolverBackend::KernelOpenat2.supported() {
            return;
        }
        let dir = tempfile::TempDir::new().expect("tempdir");
        std::fs::create_dir_all(dir.path().join("a/b")).expect("mkdir");
        let other = tempfile::TempDir::new().expect("tempdir");
        std::fs::write(other.path().join("x"), b"").expect("touch");

        let stop = Arc::new(AtomicBool::new(false));
        let renamer = {
            let stop = Arc::clone(&stop);
            let (x, y) = (other.path().join("x"), other.path().join("y"));
            std::thread::spawn(move || {
                while !stop.load(Ordering::Relaxed) {
                    let _ = std::fs::rename(&x, &y);
                    let _ = std::fs::rename(&y, &x);
                }
            })
        };

        let (kernel, emulated) = roots(dir.path().to_str().unwrap());
        let path = "a/b/../b/../b/../b/../b/../b/../b/../b/../b/../b/..";
        let mut kernel_errs = std::collections::BTreeMap::new();
        let mut emulated_errs = std::collections::BTreeMap::new();
        for _ in 0..20000 {
            if let Err(e) = kernel.open_subpath(path, OpenFlags::O_RDONLY) {
                *kernel_errs.entry(format!("{:?}", e.kind())).or_insert(0usize) += 1;
            }
            if let Err(e) = emulated.open_subpath(path, OpenFlags::O_RDONLY) {
                *emulated_errs.entry(format!("{:?}", e.kind())).or_insert(0usize) += 1;
            }
        }
        stop.store(true, Ordering::Relaxed);
        renamer.join().unwrap();
        assert_eq!(
            (kernel_errs, emulated_errs),
            Default::default(),
            "errors seen on (kernel, emulated) for a static tree"
        );
    }
}
