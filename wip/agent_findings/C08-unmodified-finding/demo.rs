
// C08 finding on the UNMODIFIED tree: the masked-handle retry in
// ProcfsHandle::open() silently switches to a *different procfs instance*.
//
// A handle made with the public ProcfsHandle::try_from_fd() from a masked
// (subset=pid) procfs that belongs to another pid namespace reports success for
// ProcRoot paths that do not exist in that procfs, because the ENOENT makes
// open() retry on ProcfsHandle::new_unmasked() -- a brand-new procfs of the
// *caller's* pid namespace, where "<caller pid>/status" does exist.
//
// Run with: cargo test --offline --lib c08_finding_masked_foreign_procfs
// (needs root). This test FAILS on the unmodified tree.
#[cfg(test)]
mod c08_finding_foreign_procfs {
    use crate::{
        error::ErrorKind,
        flags::OpenFlags,
        procfs::{ProcfsBase, ProcfsHandle},
    };

    use std::{ffi::CString, fs::File, os::unix::ffi::OsStrExt, path::Path, ptr};

    fn child(dir: &Path) -> i32 {
        let root = CString::new("/").unwrap();
        let dir_c = CString::new(dir.as_os_str().as_bytes()).unwrap();
        let proc_s = CString::new("proc").unwrap();
        let opts = CString::new("subset=pid").unwrap();
        let mut pipefd = [0i32; 2];
        // SAFETY: plain syscalls on NUL-terminated strings.
        unsafe {
            // New mount namespace (to not touch the host) and a new pid
            // namespace for our children -- we stay in the old pid namespace.
            if libc::unshare(libc::CLONE_NEWNS | libc::CLONE_NEWPID) != 0 {
                return 10;
            }
            if libc::mount(
                ptr::null(),
                root.as_ptr(),
                ptr::null(),
                libc::MS_REC | libc::MS_PRIVATE,
                ptr::null(),
            ) != 0
            {
                return 11;
            }
            if libc::pipe(pipefd.as_mut_ptr()) != 0 {
                return 12;
            }
            let init = libc::fork();
            if init < 0 {
                return 13;
            }
            if init == 0 {
                // pid 1 of the new pid namespace: mount "its" procfs on dir.
                let ok = libc::mount(
                    proc_s.as_ptr(),
                    dir_c.as_ptr(),
                    proc_s.as_ptr(),
                    0,
                    opts.as_ptr() as *const libc::c_void,
                ) == 0;
                let byte = [ok as u8];
                libc::write(pipefd[1], byte.as_ptr() as *const libc::c_void, 1);
                loop {
                    libc::pause();
                }
            }
            libc::close(pipefd[1]);
            let mut byte = [0u8];
            let n = libc::read(pipefd[0], byte.as_mut_ptr() as *mut libc::c_void, 1);
            let code = if n != 1 || byte[0] != 1 {
                14
            } else {
                lookups(dir)
            };
            libc::kill(init, libc::SIGKILL);
            code
        }
    }

    fn lookups(dir: &Path) -> i32 {
        let Ok(dirfile) = File::open(dir) else { return 20 };
        // Our own pid (in the old pid namespace) is not a process of the new
        // pid namespace, so "<pid>/status" does not exist in that procfs.
        let me = format!("{}/status", std::process::id());
        if dir.join(&me).exists() || !dir.join("1/status").exists() {
            return 21;
        }
        let Ok(procfs) = ProcfsHandle::try_from_fd(dirfile) else { return 22 };
        // Sanity: paths that exist in that procfs work.
        if procfs
            .open(ProcfsBase::ProcRoot, "1/status", OpenFlags::O_RDONLY)
            .is_err()
        {
            return 23;
        }
        match procfs.open(ProcfsBase::ProcRoot, &me, OpenFlags::O_RDONLY) {
            Err(err) if err.kind() == ErrorKind::OsError(Some(libc::ENOENT)) => 0,
            Err(_) => 30,
            // The lookup "succeeded" on some other procfs.
            Ok(_) => 31,
        }
    }

    #[test]
    fn c08_finding_masked_foreign_procfs() {
        // SAFETY: trivially safe.
        if unsafe { libc::geteuid() } != 0 {
            eprintln!("skipping: this demo needs root (namespaces, mount)");
            return;
        }
        let dir = tempfile::tempdir().expect("tempdir");

        // SAFETY: the child only runs the code above and then _exit()s.
        let pid = unsafe { libc::fork() };
        assert!(pid >= 0, "fork failed");
        if pid == 0 {
            let code = child(dir.path());
            unsafe { libc::_exit(code) };
        }
        let mut status = 0;
        // SAFETY: pid is our child.
        let ret = unsafe { libc::waitpid(pid, &mut status, 0) };
        assert_eq!(ret, pid, "waitpid failed");
        assert!(libc::WIFEXITED(status), "child was killed");
        assert_eq!(
            libc::WEXITSTATUS(status),
            0,
            "1x/2x = setup problem, 30 = wrong error, 31 = lookup of a path that does not \
             exist in the handle's procfs succeeded"
        );
    }
}
