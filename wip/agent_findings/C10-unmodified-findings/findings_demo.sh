#!/bin/bash
# Run c10_finding_reopen_opath_wrong_object (findings_demo.rs appended to
# src/lib.rs of the tree given as $1) under strace fault injection: every
# thread's first openat2(2) fails.
# usage: findings_demo.sh /path/to/worktree [ERRNO]
set -u
tree="${1:?usage: findings_demo.sh /path/to/worktree [ERRNO]}"
errno="${2:-ENOMEM}"
cd "$tree" || exit 2
bin="$(cargo test --offline --lib --no-run --message-format=json 2>/dev/null |
	grep -o '"executable":"[^"]*"' | tail -1 | cut -d'"' -f4)"
[ -x "$bin" ] || { echo "could not find the test binary" >&2; exit 2; }
echo "== control run without fault injection"
"$bin" c10_finding_reopen_opath_wrong_object --nocapture 2>&1 | grep -v '^$' | sed 's/^/   /'
echo "== run with: strace -f -e inject=openat2:error=$errno:when=1"
log="$(mktemp)"
strace -f -qq -o "$log" -e trace=openat2 -e "inject=openat2:error=$errno:when=1" \
	"$bin" c10_finding_reopen_opath_wrong_object --nocapture 2>&1 | grep -v '^$' | sed 's/^/   /'
rc=${PIPESTATUS[0]}
echo "== openat2 calls seen by strace:"
sed 's/^/   /' "$log" | tail -12
rm -f "$log"
echo "== exit status under injection: $rc"
exit "$rc"
