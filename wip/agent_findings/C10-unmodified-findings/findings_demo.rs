
// ---------------------------------------------------------------------------
// C10: behaviour of the UNMODIFIED library under injected faults.
//
// Append this module to src/lib.rs of an unmodified tree.  Every test states
// the C10 expectation, so a FAILING test is a finding.  The tests poke at
// process-global lazies (GLOBAL_PROCFS_HANDLE, PROTECTED_SYMLINKS_SYSCTL), so
// each one has to run in its own process:
//
//   cargo test --offline --lib c10_finding_procfs_init_panics_and_poisons -- --nocapture
//   cargo test --offline --lib c10_finding_protected_symlinks_sysctl_panics -- --nocapture
//   ./findings_demo.sh <tree>      # c10_finding_reopen_opath_wrong_object (strace)
// ---------------------------------------------------------------------------
#[cfg(test)]
#[allow(unsafe_code)]
mod c10_findings_unmodified {
    use crate::{flags::OpenFlags, resolvers::ResolverBackend, utils::FdExt, Root};

    use std::{
        fs,
        os::unix::{
            fs::{symlink, MetadataExt},
            io::AsFd,
        },
        panic::{catch_unwind, AssertUnwindSafe},
    };

    /// Use up every free file descriptor slot of the process and return the
    /// fillers (close some of them to leave an exact number of free slots).
    fn exhaust_fds() -> Vec<libc::c_int> {
        // Keep the fd table small so that this is quick.
        let mut lim = libc::rlimit { rlim_cur: 0, rlim_max: 0 };
        unsafe {
            assert_eq!(libc::getrlimit(libc::RLIMIT_NOFILE, &mut lim), 0);
            lim.rlim_cur = 256;
            assert_eq!(libc::setrlimit(libc::RLIMIT_NOFILE, &lim), 0);
        }
        let mut fillers = vec![];
        loop {
            let fd = unsafe { libc::dup(0) };
            if fd < 0 {
                break;
            }
            fillers.push(fd);
        }
        fillers
    }

    fn release(fds: impl IntoIterator<Item = libc::c_int>) {
        for fd in fds {
            unsafe { libc::close(fd) };
        }
    }

    fn panic_msg(payload: Box<dyn std::any::Any + Send>) -> String {
        payload
            .downcast_ref::<String>()
            .cloned()
            .or_else(|| payload.downcast_ref::<&str>().map(|s| s.to_string()))
            .unwrap_or_else(|| "<non-string panic payload>".into())
    }

    /// EMFILE while the internal procfs handle is created on first use: the
    /// operation panics instead of returning an error, and -- because the lazy
    /// is poisoned -- so does every later operation that needs procfs, even
    /// after file descriptors are available again.
    #[test]
    fn c10_finding_procfs_init_panics_and_poisons() {
        let tmp = tempfile::TempDir::new().unwrap();
        fs::write(tmp.path().join("file"), b"x").unwrap();
        let root = Root::open(tmp.path()).unwrap();
        // Needs no procfs with the openat2 backend (and with the emulated
        // backend the test is still valid, the panic just happens here).
        let handle = root.resolve("file").expect("resolve");

        let fillers = exhaust_fds();
        let first = catch_unwind(AssertUnwindSafe(|| {
            handle.reopen(OpenFlags::O_RDONLY).map(|_| ()).map_err(|e| e.kind())
        }));
        release(fillers);
        // No fd pressure any more.
        let second = catch_unwind(AssertUnwindSafe(|| {
            handle.reopen(OpenFlags::O_RDONLY).map(|_| ()).map_err(|e| e.kind())
        }));

        let first = first.map_err(panic_msg);
        let second = second.map_err(panic_msg);
        println!("reopen() with no free fd at first use of procfs: {first:?}");
        println!("reopen() afterwards, fds available again:        {second:?}");
        assert!(
            matches!(first, Ok(Err(_))),
            "C10: fd exhaustion during first-use initialisation must give an error, got {first:?}"
        );
        assert!(
            matches!(second, Ok(Ok(()))),
            "C10: a transient fault must not break later operations, got {second:?}"
        );
    }

    /// Same for the cached fs.protected_symlinks sysctl of the emulated
    /// resolver: any failure of the first read is a panic (+ poisoned lazy).
    #[test]
    fn c10_finding_protected_symlinks_sysctl_panics() {
        let tmp = tempfile::TempDir::new().unwrap();
        fs::create_dir(tmp.path().join("dir")).unwrap();
        symlink("dir", tmp.path().join("link")).unwrap();
        let root = Root::open(tmp.path())
            .unwrap()
            .with_resolver_backend(ResolverBackend::EmulatedOpath);
        // Warm-up: initialises GLOBAL_PROCFS_HANDLE (check_current), but does
        // not touch the sysctl because no symlink is involved.
        root.resolve("dir").expect("warm-up resolve");

        let mut fillers = exhaust_fds();
        // Leave two slots: the dup of the root and the component being walked.
        release(fillers.drain(..2).collect::<Vec<_>>());
        let first = catch_unwind(AssertUnwindSafe(|| {
            root.resolve("link").map(|_| ()).map_err(|e| e.kind())
        }));
        release(fillers);
        let second = catch_unwind(AssertUnwindSafe(|| {
            root.resolve("link").map(|_| ()).map_err(|e| e.kind())
        }));

        let first = first.map_err(panic_msg);
        let second = second.map_err(panic_msg);
        println!("resolve(symlink) with 2 free fds at first symlink walk: {first:?}");
        println!("resolve(symlink) afterwards, fds available again:      {second:?}");
        assert!(
            matches!(first, Ok(Err(_))),
            "C10: EMFILE while reading fs.protected_symlinks must give an error, got {first:?}"
        );
        assert!(
            matches!(second, Ok(Ok(()))),
            "C10: a transient fault must not break later operations, got {second:?}"
        );
    }

    /// ProcfsHandle::open_follow() treats *any* failure of its readlink probe as
    /// "not a symlink" and falls back to an O_NOFOLLOW open.  If the probe fails
    /// because of a transient fault (here: the first openat2(2) of the worker
    /// thread fails, see findings_demo.sh) and the caller asked for O_PATH, the
    /// operation "succeeds" and returns a handle to the /proc/thread-self/fd/N
    /// magic-link itself instead of a re-opened handle to the file.
    ///
    /// Passes without fault injection; run it through findings_demo.sh.
    #[test]
    fn c10_finding_reopen_opath_wrong_object() {
        // Sacrificial openat2(2) of this thread (consumed by "when=1").
        let rc = unsafe {
            libc::syscall(libc::SYS_openat2, -1, b"\0".as_ptr(), std::ptr::null::<u8>(), 0usize)
        };
        println!(
            "sacrificial openat2 in the test thread: rc={rc} err={:?}",
            std::io::Error::last_os_error()
        );

        let tmp = tempfile::TempDir::new().unwrap();
        fs::write(tmp.path().join("file"), b"x").unwrap();
        let root = Root::open(tmp.path()).unwrap();
        let handle = root.resolve("file").expect("resolve");
        // Warm-up in this thread so that all lazies are initialised.
        handle.reopen(OpenFlags::O_PATH).expect("warm-up reopen");
        let want = handle.as_fd().metadata().expect("fstat handle");

        let (res, handle) = std::thread::spawn(move || {
            let res = handle.reopen(OpenFlags::O_PATH);
            (res, handle)
        })
        .join()
        .unwrap();
        let _handle = handle;

        match res {
            Err(err) => println!("reopen(O_PATH) failed cleanly: {:?}", err.kind()),
            Ok(file) => {
                let got = file.as_fd().metadata().expect("fstat reopened");
                println!(
                    "reopen(O_PATH) succeeded: mode={:o} ino={} (wanted mode={:o} ino={}), points to {:?}",
                    got.mode(),
                    got.ino(),
                    want.mode(),
                    want.ino(),
                    file.as_unsafe_path_unchecked(),
                );
                assert!(
                    !got.is_symlink() && (got.dev(), got.ino()) == (want.dev(), want.ino()),
                    "C10: reopen(O_PATH) reported success but returned a different object \
                     (a handle to the procfs magic-link itself)"
                );
            }
        }
    }
}
