
// ---- C14 observation on the UNMODIFIED library: append to src/lib.rs ----
// Run (as root, mknod of a char device needs CAP_MKNOD) with:
//   cargo test --offline --lib c14_unmodified_dev_truncation -- --nocapture
// This test FAILS on the unmodified tree.
#[cfg(test)]
mod c14_unmodified_dev_truncation {
    use crate::{InodeType, Root};
    use std::{
        fs::{self, Permissions},
        os::unix::fs::{MetadataExt, PermissionsExt},
    };

    /// A dev_t whose value does not fit in 32 bits (major >= 4096) cannot be
    /// represented by the mknodat(2) syscall ABI. glibc's mknodat(3) refuses it
    /// with EINVAL; Root::create() passes the 64-bit value straight to the raw
    /// syscall (via rustix), the kernel only looks at the low 32 bits, and a node
    /// with a *different* device number is created and Ok(()) is returned.
    #[test]
    fn c14_unmodified_dev_truncation() {
        let tmp = tempfile::TempDir::new().unwrap();
        let root = Root::open(tmp.path()).unwrap();

        let dev = libc::makedev(4097, 3); // 0x1000_0000_0103
        let res = root.create(
            "node",
            &InodeType::CharacterDevice(Permissions::from_mode(0o600), dev),
        );
        eprintln!("asked for rdev {dev:#x}, create() returned {res:?}");

        // What libc's mknod/mknodat does with the same arguments.
        let c = std::ffi::CString::new(tmp.path().join("node2").to_str().unwrap()).unwrap();
        // SAFETY: plain libc call with a valid C string.
        let rc = unsafe { libc::mknod(c.as_ptr(), libc::S_IFCHR | 0o600, dev) };
        eprintln!("libc mknod: rc={rc} ({})", std::io::Error::last_os_error());

        if let Ok(meta) = fs::symlink_metadata(tmp.path().join("node")) {
            eprintln!("created node has rdev {:#x}", meta.rdev());
            assert_eq!(
                meta.rdev(),
                dev,
                "create() succeeded but made a node for another device (1:3 is /dev/null)"
            );
        }
    }
}
