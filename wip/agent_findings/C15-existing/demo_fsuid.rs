
// ---- C15: UNMODIFIED library diverges from the kernel when fsuid != euid ----
// The kernel's may_follow_link() compares the link owner with current_fsuid();
// the library uses geteuid(). A thread that used setfsuid(2) (as file servers
// do to impersonate a user) gets different answers from the two.
// Run (as root) with: cargo test --offline --lib c15_existing_fsuid -- --nocapture
// This test FAILS on the unmodified tree.
#[cfg(test)]
mod c15_existing_fsuid {
    use crate::{
        error::ErrorKind,
        flags::ResolverFlags,
        resolvers::{Resolver, ResolverBackend},
    };
    use std::{
        ffi::CString,
        fs::{self, File},
        os::unix::{
            ffi::OsStrExt,
            fs::{chown, lchown, symlink, PermissionsExt},
        },
        path::Path,
    };

    const SYSCTL: &str = "/proc/sys/fs/protected_symlinks";

    struct SysctlGuard(String);
    impl SysctlGuard {
        fn enable() -> Self {
            let old = fs::read_to_string(SYSCTL).expect("read sysctl");
            fs::write(SYSCTL, "1\n").expect("set fs.protected_symlinks=1 (needs root)");
            SysctlGuard(old)
        }
    }
    impl Drop for SysctlGuard {
        fn drop(&mut self) {
            let _ = fs::write(SYSCTL, &self.0);
        }
    }

    fn kernel_errno(path: &Path) -> Option<i32> {
        let cpath = CString::new(path.as_os_str().as_bytes()).unwrap();
        let fd = unsafe { libc::open(cpath.as_ptr(), libc::O_PATH | libc::O_CLOEXEC) };
        if fd < 0 {
            std::io::Error::last_os_error().raw_os_error()
        } else {
            unsafe { libc::close(fd) };
            None
        }
    }

    fn emulated_errno(root: &File, path: &str) -> Option<i32> {
        let resolver = Resolver {
            backend: ResolverBackend::EmulatedOpath,
            flags: ResolverFlags::empty(),
        };
        match resolver.resolve(root, path, false) {
            Ok(_) => None,
            Err(err) => match err.kind() {
                ErrorKind::OsError(Some(errno)) => Some(errno),
                kind => panic!("unexpected error kind {kind:?}: {err}"),
            },
        }
    }

    #[test]
    fn c15_existing_fsuid() {
        assert_eq!(unsafe { libc::geteuid() }, 0, "this demo must run as root");
        let _guard = SysctlGuard::enable();

        let tmp = tempfile::TempDir::new().unwrap();
        fs::set_permissions(tmp.path(), fs::Permissions::from_mode(0o755)).unwrap();
        let dir = tmp.path().join("sticky");
        fs::create_dir(&dir).unwrap();
        File::create(dir.join("file")).unwrap();
        for uid in [0u32, 11111, 12345] {
            let link = dir.join(format!("link-{uid}"));
            symlink("file", &link).unwrap();
            lchown(&link, Some(uid), None).unwrap();
        }
        chown(&dir, Some(12345), None).unwrap();
        fs::set_permissions(&dir, fs::Permissions::from_mode(0o1777)).unwrap();

        let root = File::open(tmp.path()).unwrap();
        // Warm up the library's lazily-initialised state (procfs handle and the
        // cached sysctl value) with full privileges.
        assert_eq!(emulated_errno(&root, "sticky/file"), None);
        assert_eq!(emulated_errno(&root, "sticky/link-11111"), Some(libc::EACCES));

        let base = tmp.path().to_path_buf();
        // setfsuid(2) is per-thread, so do it in a throw-away thread.
        let results = std::thread::spawn(move || {
            unsafe { libc::setfsuid(11111) };
            assert_eq!(unsafe { libc::setfsuid(u32::MAX) }, 11111, "fsuid is now 11111");
            assert_eq!(unsafe { libc::geteuid() }, 0, "euid is still 0");
            ["sticky/link-0", "sticky/link-11111", "sticky/link-12345"]
                .map(|path| (path, kernel_errno(&base.join(path)), emulated_errno(&root, path)))
        })
        .join()
        .unwrap();

        eprintln!("(path, kernel, emulated) with euid=0 fsuid=11111: {results:?}");
        // Kernel: link-0 refused (owner 0 is neither fsuid 11111 nor dir owner
        // 12345), link-11111 allowed (owner == fsuid), link-12345 allowed.
        assert_eq!(results[0].1, Some(libc::EACCES));
        assert_eq!(results[1].1, None);
        assert_eq!(results[2].1, None);
        for (path, kernel, emulated) in results {
            assert_eq!(
                emulated, kernel,
                "emulated resolver disagrees with the kernel for {path:?} (euid=0, fsuid=11111)"
            );
        }
    }
}
