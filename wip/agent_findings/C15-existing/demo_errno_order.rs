
// ---- C15 (minor): errno precedence differs from the kernel on the UNMODIFIED tree ----
// The kernel's pick_link() does: symlink-count check (ELOOP) -> may_follow_link
// (EACCES) -> RESOLVE_NO_SYMLINKS (ELOOP). The emulated resolver does:
// NO_SYMLINKS (ELOOP) -> may_follow_link (EACCES) -> symlink-count check (ELOOP).
// Both refuse, but with a different errno.
// Run (as root) with: cargo test --offline --lib c15_existing_errno_order -- --nocapture
#[cfg(test)]
mod c15_existing_errno_order {
    use crate::{
        error::ErrorKind,
        flags::ResolverFlags,
        resolvers::{Resolver, ResolverBackend},
    };
    use std::{
        fs::{self, File},
        os::unix::fs::{chown, lchown, symlink, PermissionsExt},
    };

    const SYSCTL: &str = "/proc/sys/fs/protected_symlinks";

    struct SysctlGuard(String);
    impl SysctlGuard {
        fn enable() -> Self {
            let old = fs::read_to_string(SYSCTL).expect("read sysctl");
            fs::write(SYSCTL, "1\n").expect("set fs.protected_symlinks=1 (needs root)");
            SysctlGuard(old)
        }
    }
    impl Drop for SysctlGuard {
        fn drop(&mut self) {
            let _ = fs::write(SYSCTL, &self.0);
        }
    }

    fn errno(backend: ResolverBackend, flags: ResolverFlags, root: &File, path: &str) -> Option<i32> {
        match (Resolver { backend, flags }).resolve(root, path, false) {
            Ok(_) => None,
            Err(err) => match err.kind() {
                ErrorKind::OsError(Some(errno)) => Some(errno),
                kind => panic!("unexpected error kind {kind:?}: {err}"),
            },
        }
    }

    #[test]
    fn c15_existing_errno_order() {
        assert_eq!(unsafe { libc::geteuid() }, 0, "this demo must run as root");
        assert!(ResolverBackend::KernelOpenat2.supported(), "needs openat2 as the oracle");
        let _guard = SysctlGuard::enable();

        let tmp = tempfile::TempDir::new().unwrap();
        let dir = tmp.path().join("sticky");
        fs::create_dir(&dir).unwrap();
        File::create(dir.join("file")).unwrap();
        symlink("file", dir.join("bad")).unwrap();
        lchown(dir.join("bad"), Some(11111), None).unwrap();
        // chain-40 -> chain-39 -> ... -> chain-1 -> bad: "bad" is the 41st link.
        symlink("bad", dir.join("chain-1")).unwrap();
        for i in 2..=40 {
            symlink(format!("chain-{}", i - 1), dir.join(format!("chain-{i}"))).unwrap();
        }
        chown(&dir, Some(12345), None).unwrap();
        fs::set_permissions(&dir, fs::Permissions::from_mode(0o1777)).unwrap();
        let root = File::open(tmp.path()).unwrap();

        let mut bad = vec![];
        for (flags, path) in [
            (ResolverFlags::empty(), "sticky/bad"),
            (ResolverFlags::NO_SYMLINKS, "sticky/bad"),
            (ResolverFlags::empty(), "sticky/chain-39"),
            (ResolverFlags::empty(), "sticky/chain-40"),
        ] {
            let kernel = errno(ResolverBackend::KernelOpenat2, flags, &root, path);
            let emulated = errno(ResolverBackend::EmulatedOpath, flags, &root, path);
            eprintln!("{path:?} {flags:?}: kernel={kernel:?} emulated={emulated:?}");
            if kernel != emulated {
                bad.push((path, flags, kernel, emulated));
            }
        }
        assert!(bad.is_empty(), "errno differs from openat2: {bad:?}");
    }
}
