"""Replay files for failed obligations (DESIGN.md section 8).

Verus gives no counterexample.  For obligations that have a registered demonstration on the real
code (a #[cfg(test)] module under /verif/findings, appended to a scratch copy of /repo's current
working tree and run offline, possibly under strace fault injection or in a private mount
namespace), the demonstration is run: if it FAILS on the current tree, its inputs are the failing
input and the replay file is runnable; otherwise the VIOLATION line ends in no-failing-input-found.
"""
import json
import os
import re
import subprocess

VERIF = os.path.dirname(os.path.dirname(os.path.abspath(__file__)))

# (regex on the obligation label / function key, command relative to /verif)
REGISTRY = [
    (r"remove_all\.(dot_dotdot_refused|subdir_in_root)|remove_inode\.single_entry_name",
     ["tools/replay_real.sh", "findings/D1_remove_all_dotdot.rs", "verif_replay_d1"]),
    (r"openat2\.path_has_no_interior_nul",
     ["tools/replay_real.sh", "findings/D7_openat2_nul.rs", "verif_replay_d7"]),
    (r"proc_subpath\.any_nonnegative_fd",
     ["tools/replay_real.sh", "findings/D2_D3_reopen.rs", "verif_replay_d2"]),
    (r"(open_follow|reopen|ProcfsResolver)\.creation_flags_refused",
     ["tools/replay_real.sh", "findings/D2_D3_reopen.rs", "verif_replay_d3"]),
    (r"open\.unmasked_retry|ProcfsHandle\.open.*termination|open\.unlabelled:could not prove termination",
     ["tools/replay_d4.sh"]),
    (r"openat2_resolve_partial.*(unreachable|unlabelled)",
     ["tools/replay_strace.sh", "findings/D5_unreachable_on_fault.rs", "verif_replay_d5", "openat2:error=EMFILE:when=3+"]),
    (r"create_file\.(returned_descriptor_is_inside_the_root|final_name_is_not_dot_or_dotdot)",
     ["tools/replay_real.sh", "findings/D8_create_file_dotdot_opath.rs", "verif_replay_d8"]),
    (r"(?<!p)static\.walk_invariant|equals_the_kernel_walk_on_a_static_tree",
     ["tools/replay_real.sh", "findings/D6_empty_path.rs", "verif_replay_d6"]),
    (r"openat2\.noctty_unless_opath",
     ["tools/replay_real.sh", "findings/D9_D10_cloexec_noctty.rs", "verif_replay_d9"]),
    (r"open_tree\.cloexec",
     ["tools/replay_real.sh", "findings/D9_D10_cloexec_noctty.rs", "verif_replay_d10"]),
    (r"frozenfd\.error_value_construction",
     ["tools/replay_real.sh", "findings/D11_frozenfd_recursion.rs", "verif_replay_d11_error"]),
    (r"protected_symlinks_rule_applies_to_the_trailing_link_only|protected_symlinks_checked_before_a_trailing_link_is_read",
     ["tools/replay_real.sh", "findings/D12_protected_symlinks_intermediate.rs", "verif_replay_d12"]),
    (r"partial_handle_is_verified_after_the_walk|creation_starts_from_a_directory_verified_against_the_root",
     ["tools/replay_real.sh", "findings/D14_partial_handle_unverified.rs", "verif_replay_d14"]),
    (r"an_ordinary_symlink_is_not_followed_onto_another_mount",
     ["tools/replay_real.sh", "findings/D16_open_follow_ordinary_symlink.rs", "verif_replay_d16"]),
    (r"a_magic_link_is_never_walked_as_an_ordinary_symlink",
     ["tools/replay_real.sh", "findings/D17_procfs_magiclink_relative_body.rs", "verif_replay_d17"]),
    (r"pstatic\.walk_invariant|equals_the_kernel_walk_and_final_component_table",
     ["tools/replay_real.sh", "findings/D13_procfs_absolute_subpath.rs", "verif_replay_d13"]),
    (r"no_follow_fallback_only_when_the_link_probe_says_not_a_symlink",
     ["tools/replay_real.sh", "findings/D18_open_follow_probe_failure.rs", "verif_replay_d18"]),
    (r"eagain_is_retried_then_reported_as_a_safety_violation",
     ["tools/replay_real.sh", "findings/D19_D20_oneshot_open.rs", "verif_replay_d19"]),
    (r"creation_flags_refused_whatever_the_backend",
     ["tools/replay_real.sh", "findings/D19_D20_oneshot_open.rs", "verif_replay_d20"]),
    (r"the_final_following_open_carries_no_creation_flags",
     ["tools/replay_real.sh", "findings/D22_open_follow_tmpfile_via_trailing_slash.rs", "verif_replay_d22"]),
    (r"the_link_owner_is_compared_with_the_fsuid_like_the_kernel_does",
     ["tools/replay_real.sh", "findings/D21_fsuid_vs_euid.rs", "verif_replay_d21"]),
    (r"static GLOBAL_PROCFS_HANDLE",
     ["tools/replay_real.sh", "findings/D5c_global_procfs_init.rs", "verif_replay_d5c"]),
    (r"static PROTECTED_SYMLINKS_SYSCTL",
     ["tools/replay_subsetpid.sh", "findings/D5d_sysctl_init.rs", "verif_replay_d5d"]),
]


def find_demo(fl):
    hay = "%s %s" % (fl.get("label_full") or "", fl.get("function") or "")
    for pat, cmd in REGISTRY:
        if re.search(pat, hay):
            return cmd
    return None


def write_replay(prop, fl, results):
    """Returns (path, failing_input_found)."""
    label = re.sub(r"[^A-Za-z0-9_.+-]", "_", fl["label_full"])[:120]
    path = os.path.join(VERIF, "replays", "%s-%s-%s.json" % (prop, fl["unit"].replace(":", "_"), label))
    unit = results.get(fl["unit"])
    fn = None
    if unit is not None and unit.unit is not None:
        for f in unit.unit.functions:
            if f["key"] == fl.get("function"):
                fn = f
    doc = {
        "property": prop,
        "unit": fl["unit"],
        "function": fl.get("function"),
        "obligation": fl["label_full"],
        "verifier_message": fl["message"],
        "verifier_output": fl.get("rendered", ""),
        "repo_site": fl.get("site"),
        "repo_file": fn["file"] if fn else None,
        "repo_line": fn["repo_line"] if fn else None,
        "sha256": fn["sha256"] if fn else None,
        "repo_text": fn["orig"] if fn else None,
        "verified_text": fn["rewritten"] if fn else None,
        "failing_input": None,
        "replay_cmd": None,
        "note": "Verus gives no counterexample; no concrete failing input was derived for this obligation (no-failing-input-found).",
    }
    found = False
    demo = find_demo(fl)
    if demo and os.environ.get("VERIF_NO_REPLAY") != "1":
        try:
            p = subprocess.run(demo, cwd=VERIF, capture_output=True, text=True, timeout=900)
            out = (p.stdout + p.stderr)[-6000:]
            doc["replay_cmd"] = "cd /verif && " + " ".join(demo)
            doc["replay_output"] = out
            if p.returncode != 0 and ("test result: FAILED" in out or "panicked" in out or "Aborted" in out or "overflowed its stack" in out):
                found = True
                doc["failing_input"] = "the scenario of %s (see the module text): it fails on the current tree" % demo[1 if len(demo) > 1 else 0]
                doc["note"] = "registered demonstration run against the current working tree of /repo: FAILS (see replay_output)"
            else:
                doc["note"] = "registered demonstration run against the current tree did not fail; obligation reported without a failing input"
        except Exception as e:  # noqa: BLE001
            doc["note"] = "replay could not be run: %r" % e
    with open(path, "w") as f:
        json.dump(doc, f, indent=1)
    return path, found
