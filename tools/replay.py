"""Replay files for failed obligations (DESIGN.md section 8)."""
import json
import os
import re

VERIF = os.path.dirname(os.path.dirname(os.path.abspath(__file__)))


def write_replay(prop, fl, results):
    """Returns (path, failing_input_found)."""
    label = re.sub(r"[^A-Za-z0-9_.+-]", "_", fl["label_full"])[:120]
    path = os.path.join(VERIF, "replays", "%s-%s-%s.json" % (prop, fl["unit"].replace(":", "_"), label))
    unit = results.get(fl["unit"])
    fn = None
    if unit is not None and unit.unit is not None:
        for f in unit.unit.functions:
            if f["key"] == fl.get("function"):
                fn = f
    doc = {
        "property": prop,
        "unit": fl["unit"],
        "function": fl.get("function"),
        "obligation": fl["label_full"],
        "verifier_message": fl["message"],
        "verifier_output": fl.get("rendered", ""),
        "repo_site": fl.get("site"),
        "repo_file": fn["file"] if fn else None,
        "repo_line": fn["repo_line"] if fn else None,
        "sha256": fn["sha256"] if fn else None,
        "repo_text": fn["orig"] if fn else None,
        "verified_text": fn["rewritten"] if fn else None,
        "failing_input": None,
        "replay_cmd": None,
        "note": "Verus gives no counterexample; no concrete failing input was derived for this obligation (no-failing-input-found).",
    }
    found = False
    with open(path, "w") as f:
        json.dump(doc, f, indent=1)
    return path, found
