#!/usr/bin/env python3
"""mut.py <repo-file> <old> <new> <prop> [<prop>...] : apply a textual mutation to /repo, run checks, revert."""
import subprocess, sys
f, old, new = sys.argv[1:4]
props = sys.argv[4:]
p = '/repo/' + f
s = open(p).read()
assert s.count(old) >= 1, "pattern not found"
open(p, 'w').write(s.replace(old, new, 1))
try:
    for pr in props:
        import os
        r = subprocess.run(['/verif/check', pr], capture_output=True, text=True, env=dict(os.environ, VERIF_EVIDENCE_DIR='/tmp/verif-mut-evidence', VERIF_NO_REPLAY='1'))
        print(pr, 'exit', r.returncode)
        print('\n'.join(l for l in (r.stdout + r.stderr).split('\n') if l.strip())[:1500])
finally:
    open(p, 'w').write(s)
