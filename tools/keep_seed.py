#!/usr/bin/env python3
"""keep_seed.py <src change dir> <seed id> <property> <detected-by text> <needs text> : store a confirmed seeded change"""
import json, os, shutil, sys
src, sid, prop, detected, needs = sys.argv[1:6]
dst = os.path.join('/verif/seeded', sid)
os.makedirs(dst, exist_ok=True)
for f in os.listdir(src):
    if f in ('patch.diff', 'demo.rs', 'demo.sh', 'README.md'):
        shutil.copy(os.path.join(src, f), os.path.join(dst, f))
meta = {"id": sid, "property": prop, "needs_to_manifest": needs,
        "what_was_run": ["tools/confirm_seed.sh %s  (demo passes on the unmodified tree, fails with the change; scratch copy)" % dst,
                         "tools/try_seed.sh %s/patch.diff %s  (apply to /repo, run the check, revert)" % (dst, prop),
                         "existing suite with the change applied: run by the authoring sub-agent (see README.md)"],
        "detected": detected, "author": "independent sub-agent given only the property text and a scratch worktree"}
json.dump(meta, open(os.path.join(dst, 'meta.json'), 'w'), indent=1)
print("kept", dst)
