#!/usr/bin/env python3
"""keep_round3.py <try log> <confirm log> <out dirs...>: store the third round of independently written changes under
/verif/seeded/<PROP>-<n+4>/ with a meta.json saying what each check reports now, then regenerate seeded/README.md."""
import json, os, re, shutil, sys, glob
VERIF = os.path.dirname(os.path.dirname(os.path.abspath(__file__)))
trylog, conflog, dirs = sys.argv[1], sys.argv[2], sys.argv[3:]
outcome = {}
for l in open(trylog):
    m = re.match(r"(C\d\d-\d)\s+(C\d\d)\s+(\S+)\s*(.*)", l)
    if m:
        outcome[m.group(1)] = (m.group(3), m.group(4).strip())
conf = {}
for l in open(conflog):
    m = re.match(r"c(\d\d)_(\d) unmodified exit=(\d+) .*with change exit=(\d+)", l)
    if m:
        conf["C%s-%s" % (m.group(1), m.group(2))] = (int(m.group(3)), int(m.group(4)))
for g in dirs:
    for d in sorted(glob.glob(os.path.join(g, "C??-?"))):
        oid = os.path.basename(d)
        prop, n = oid.split("-")
        sid = "%s-%d" % (prop, int(n) + int(os.environ.get("SEED_OFFSET", "4")))
        dst = os.path.join(VERIF, "seeded", sid)
        os.makedirs(dst, exist_ok=True)
        for f in ("patch.diff", "demo.rs", "demo.sh", "README.md"):
            if os.path.exists(os.path.join(d, f)):
                shutil.copy(os.path.join(d, f), os.path.join(dst, f))
        title = ""
        rp = os.path.join(d, "README.md")
        if os.path.exists(rp):
            for l in open(rp):
                if l.startswith("#"):
                    title = re.sub(r"^#+\s*(C\d\d-\d\s*[—-]+\s*)?", "", l.strip())
                    break
        st, what = outcome.get(oid, ("?", ""))
        b, m_ = conf.get(oid, (None, None))
        if b == 0 and m_ not in (0, None):
            confirmed = "demo re-run here (tools/confirm_round3.sh, scratch copy): passes on the unmodified tree, fails with the change"
        elif b == 0 and m_ == 0:
            confirmed = "demo.rs passes here with and without the change (it needs the conditions of demo.sh / a race that did not occur in this run); the violation was shown by the authoring sub-agent (see README.md)"
        else:
            confirmed = "demonstration run by the authoring sub-agent only (see README.md)"
        if st == "VIOLATION":
            det, exp = "VIOLATION: " + what, "violation"
        elif st == "undecided":
            det, exp = "undecided (exit 2, no alarm and no pass): " + what, "undecided"
        else:
            det, exp = "MISSED: the check passes with the change applied", "ok"
        meta = {"id": sid, "property": prop, "round": int(os.environ.get("SEED_ROUND", "3")), "needs_to_manifest": title,
                "what_was_run": [confirmed, "tools/try_seeds.py (scratch copy of /repo with the change, the property's check)",
                                 "existing suite with the change applied: run by the authoring sub-agent (see README.md)"],
                "detected": det, "expect": exp,
                "author": "independent sub-agent given only the property texts and a scratch worktree; asked for subtle changes in helpers, rare branches and less-used entry points"}
        json.dump(meta, open(os.path.join(dst, "meta.json"), "w"), indent=1)
# README
metas = [json.load(open(p)) for p in sorted(glob.glob(os.path.join(VERIF, "seeded", "*", "meta.json")))]
def cls(m):
    d = m.get("detected", "")
    return "VIOLATION" if d.startswith("VIOLATION") or ("VIOLATION" in d and not d.startswith(("undecided", "MISSED"))) else ("undecided" if d.startswith("undecided") else "MISSED")
nv = len([m for m in metas if cls(m) == "VIOLATION"]); nu = len([m for m in metas if cls(m) == "undecided"]); nm = len(metas) - nv - nu
head = open(os.path.join(VERIF, "seeded", "README.md")).read().split("\n| id |")[0]
head = re.sub(r"\n\d+ changes[ :(][^\n]*\n", "\n%d changes (rounds 1 and 2: four per property; round 3: two more per property, deliberately subtle): %d reported as VIOLATION, %d undecided (exit 2: the change uses a construct or shape outside the modelled subset; no alarm, but no pass either), %d passing silently.\n" % (len(metas), nv, nu, nm), head)
rows = ["| id | property | outcome now | needs, to manifest |", "|---|---|---|---|"]
for m in metas:
    rows.append("| %s | %s | %s | %s |" % (m["id"], m["property"], cls(m), m.get("needs_to_manifest", "").replace("|", "\\|")))
open(os.path.join(VERIF, "seeded", "README.md"), "w").write(head.rstrip("\n") + "\n\n" + "\n".join(rows) + "\n")
print(len(metas), nv, nu, nm)
