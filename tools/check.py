#!/usr/bin/env python3
"""check <property-id> [--tier quick|thorough]

Decides one property of /verif/properties.jsonl on /repo's current working tree by
(1) extracting the functions under contract from /repo (vx), (2) splicing the
contracts of /verif/contracts into them, (3) letting Verus discharge every
obligation, (4) mapping any failed obligation back to a labelled contract clause and
a repository line.  Exit 0: every obligation discharged.  Exit 1: VIOLATION line(s).
Exit 2: undecided (lost anchor, unsupported construct, tool failure, vacuous proof).
"""
import concurrent.futures
import glob
import hashlib
import json
import os
import re
import subprocess
import sys
import time

sys.path.insert(0, os.path.dirname(os.path.abspath(__file__)))
import vxbuild  # noqa: E402
from vxbuild import VERIF, REPO, LostAnchor  # noqa: E402

BUILD = os.environ.get("VERIF_BUILD_DIR") or os.path.join(VERIF, "build")
VERUS = os.environ.get("VERUS", "verus")
RLIMIT = os.environ.get("VERIF_RLIMIT", "60")


def log(*a):
    print(*a, file=sys.stderr, flush=True)


def ensure_vx():
    if not os.path.exists(vxbuild.VX) or os.path.getmtime(vxbuild.VX) < max(
            os.path.getmtime(p) for p in glob.glob(os.path.join(VERIF, "vx", "src", "*.rs"))):
        p = subprocess.run(["cargo", "build", "--offline", "-q"], cwd=os.path.join(VERIF, "vx"),
                           capture_output=True, text=True, env=dict(os.environ, CARGO_NET_OFFLINE="true"))
        if p.returncode != 0:
            log(p.stderr[-3000:])
            raise SystemExit(2)


def unit_index():
    idx = {}
    for p in sorted(glob.glob(os.path.join(VERIF, "units", "U*.rs"))):
        name = os.path.basename(p)[:-3]
        serves, tier = [], "A"
        for l in open(p):
            s = l.strip()
            if s.startswith("//@serves"):
                serves = s.split()[1:]
            elif s.startswith("//@tier"):
                tier = s.split()[1]
        idx[name] = {"serves": serves, "tier": tier}
    return idx


class UnitResult:
    def __init__(self, name):
        self.name = name
        self.status = "ok"          # ok | failed | undecided
        self.reason = ""
        self.unit = None
        self.failures = []          # dicts
        self.functions = []         # verus function-breakdown entries
        self.verified = 0
        self.errors = 0
        self.smt_ms = 0
        self.total_ms = 0
        self.canary_bad = []        # functions whose `ensures false` canary verified (vacuous)
        self.canary_ran = 0
        self.cmd = ""
        self.raw_diag = ""


def run_verus(path):
    cmd = [VERUS, path, "--multiple-errors", "40", "--output-json", "--time-expanded",
           "--error-format=json", "--rlimit", RLIMIT]
    t0 = time.time()
    p = subprocess.run(cmd, capture_output=True, text=True, cwd=BUILD)
    dt = time.time() - t0
    out = None
    try:
        out = json.loads(p.stdout)
    except Exception:
        pass
    diags = []
    other = []
    for l in p.stderr.split("\n"):
        l = l.strip()
        if l.startswith("{"):
            try:
                diags.append(json.loads(l))
                continue
            except Exception:
                pass
        if l:
            other.append(l)
    return " ".join(cmd), p.returncode, out, diags, other, dt


VERIF_MSGS = (
    "precondition not satisfied", "postcondition not satisfied", "invariant not satisfied",
    "assertion failed", "possible arithmetic", "possible division", "could not prove termination",
    "decreases not satisfied", "possible bit shift", "recommendation not met", "unreachable",
    "cannot show", "failed to", "constructed value may fail", "might fail",
    "loop invariant", "rlimit", "Resource limit", "unable to prove", "post-condition of closure",
)


def is_verification_error(d):
    if d.get("level") != "error":
        return False
    if d.get("code"):
        return False            # rustc error with an error code (type error etc.)
    m = d.get("message", "")
    if m.startswith("aborting due to"):
        return False
    return any(k in m for k in VERIF_MSGS)


def labels_in_span(u, sp):
    labs = []
    for ln in range(sp["line_start"], sp["line_end"] + 1):
        if ln in u.labels:
            labs.append(u.labels[ln])
    return labs


def find_function(u, line):
    for f in u.functions:
        a, b = f["gen_lines"]
        if a <= line <= b:
            return f
    return None


def origin_of(u, line):
    if 1 <= line <= len(u.lines):
        o = u.lines[line - 1][1]
        return o
    return None


def analyse_unit(name, canary):
    res = UnitResult(name)
    try:
        u = vxbuild.build_unit(name, canary=False)
    except LostAnchor as e:
        res.status, res.reason = "undecided", "lost anchor: %s" % e
        return res
    except Exception as e:  # malformed spec etc.
        res.status, res.reason = "undecided", "build error: %r" % e
        return res
    res.unit = u
    path = os.path.join(BUILD, name + ".rs")
    with open(path, "w") as f:
        f.write(u.text())
    cmd, rc, out, diags, other, dt = run_verus(path)
    res.cmd = cmd
    res.total_ms = int(dt * 1000)
    errs = [d for d in diags if d.get("level") == "error" and not d.get("message", "").startswith("aborting due to")]
    if out is None or "verification-results" not in out:
        res.status = "undecided"
        res.reason = "verus produced no result (tool failure / unsupported construct): " + \
            "; ".join(d.get("message", "") for d in errs[:5]) + " " + " | ".join(other[:5])
        res.raw_diag = "\n".join(d.get("rendered", d.get("message", "")) for d in errs[:10])
        return res
    vr = out["verification-results"]
    res.verified, res.errors = vr.get("verified", 0), vr.get("errors", 0)
    try:
        smt = out["times-ms"]["smt"]
        res.smt_ms = smt.get("total", 0)
        for m in smt.get("smt-run-module-times", []):
            res.functions += m.get("function-breakdown", [])
    except Exception:
        pass
    nonverif = [d for d in errs if not is_verification_error(d)]
    if vr.get("encountered-vir-error") or (nonverif and not vr.get("success") and res.errors == 0):
        res.status = "undecided"
        res.reason = "verus rejected the unit (unsupported construct / type error): " + \
            "; ".join(d.get("message", "") for d in nonverif[:5])
        res.raw_diag = "\n".join(d.get("rendered", d.get("message", "")) for d in nonverif[:10])
        return res
    # ---- failed obligations
    for d in errs:
        if not is_verification_error(d):
            if res.errors > 0:
                # e.g. notes; keep for the replay file
                continue
        spans = d.get("spans", [])
        prim = [s for s in spans if s.get("is_primary")]
        sec = [s for s in spans if not s.get("is_primary")]
        label = None
        for s in sec + prim if "precondition" in d["message"] else prim + sec:
            ls = labels_in_span(u, s)
            if ls:
                label = ls[0]
                break
        # where in the repository
        site = None
        fn = None
        site_spans = (prim + sec) if "precondition" in d["message"] else (sec + prim)
        for s in site_spans:
            f = find_function(u, s["line_start"])
            if f and f["mode"] in ("prove", "item"):
                fn = f
                o = origin_of(u, s["line_start"])
                if o and o[0] == "repo":
                    site = {"file": o[1], "line": o[2],
                            "text": (s.get("text") or [{}])[0].get("text", "").strip()}
                    break
        if fn is None:
            for s in prim + sec:
                f = find_function(u, s["line_start"])
                if f:
                    fn = f
                    break
        res.failures.append({
            "unit": name, "message": d["message"], "label": label,
            "function": fn["key"] if fn else None,
            "function_mode": fn["mode"] if fn else None,
            "site": site, "rendered": d.get("rendered", ""),
        })
    if res.failures or res.errors:
        res.status = "failed"
    # ---- vacuity canary: every proved function gets `ensures false` and must FAIL
    if canary and res.status == "ok":
        try:
            uc = vxbuild.build_unit(name, canary=True)
            cpath = os.path.join(BUILD, name + "_canary.rs")
            with open(cpath, "w") as f:
                f.write(uc.text())
            _, _, cout, cdiags, _, _ = run_verus(cpath)
            failed_fns = set()
            for d in cdiags:
                if d.get("level") != "error":
                    continue
                for s in d.get("spans", []):
                    for l in labels_in_span(uc, s):
                        if l.startswith("CANARY."):
                            failed_fns.add(l[len("CANARY."):])
            proved = [f["key"] for f in uc.functions if f["mode"] == "prove" and f.get("has_canary")]
            res.canary_ran = len(proved)
            res.canary_bad = [k for k in proved if k not in failed_fns]
            if cout is None:
                res.canary_bad = proved
        except LostAnchor as e:
            res.status, res.reason = "undecided", "lost anchor (canary): %s" % e
    return res


def label_props(label):
    """'C03+C13.remove_all.x' -> ['C03','C13']"""
    if not label:
        return []
    head = label.split(".", 1)[0]
    return [p for p in head.split("+") if re.match(r"^C\d\d$", p)]


def load_known():
    p = os.path.join(VERIF, "known_findings.json")
    if not os.path.exists(p):
        return []
    return json.load(open(p))


def norm_site(t):
    return re.sub(r"\s+", " ", t or "").strip()


def match_known(known, prop, fail):
    for k in known:
        if k.get("status") != "finding":
            continue
        if k.get("property") != prop:
            continue
        if k.get("obligation") and k["obligation"] != fail.get("label_full"):
            continue
        if k.get("function") and k["function"] != fail.get("function"):
            continue
        if k.get("site") and norm_site(k["site"]) not in norm_site((fail.get("site") or {}).get("text", "")):
            continue
        return k
    return None


def replay_main(args):
    """./check --replay <replay file>: show the failed obligation recorded in the file, run its registered demonstration on the
    real code (if any) and re-verify the obligation on /repo's current tree.  Exit 1 if it still fails (or the demonstration
    fails), 0 if it is discharged now, 2 if it cannot be decided."""
    if not args or not os.path.exists(args[0]):
        print("usage: check --replay <path to a replay file>")
        return 2
    doc = json.load(open(args[0]))
    print("property   : %s" % doc.get("property"))
    print("obligation : %s" % doc.get("obligation"))
    print("function   : %s  (%s:%s)" % (doc.get("function"), doc.get("repo_file"), doc.get("repo_line")))
    print("verifier   : %s" % doc.get("verifier_message"))
    if doc.get("repo_site"):
        print("site       : %s" % json.dumps(doc["repo_site"]))
    print("note       : %s" % doc.get("note"))
    rc = 0
    if doc.get("replay_cmd"):
        print("running the registered demonstration on the real code: %s" % doc["replay_cmd"])
        p = subprocess.run(doc["replay_cmd"], shell=True, capture_output=True, text=True)
        print((p.stdout + p.stderr)[-3000:])
        if p.returncode != 0:
            print("demonstration FAILS on the current tree (failing input reproduced)")
            rc = 1
        else:
            print("demonstration passes on the current tree")
    unit = doc.get("unit") or ""
    if unit.startswith("scan"):
        env = dict(os.environ, VERIF_NO_REPLAY="1", VERIF_EVIDENCE_DIR="/tmp/verif-replay-evidence")
    else:
        env = dict(os.environ, VERIF_NO_REPLAY="1", VERIF_ONLY_UNIT=unit, VERIF_EVIDENCE_DIR="/tmp/verif-replay-evidence")
    p = subprocess.run([sys.executable, os.path.abspath(__file__), doc["property"]], capture_output=True, text=True, env=env)
    want = os.path.basename(args[0])
    still = [l for l in p.stdout.split("\n") if l.startswith("VIOLATION") and want in l]
    known = [l for l in p.stdout.split("\n") if l.startswith("KNOWN-FINDING")]
    if still:
        print("re-verification on the current tree: the obligation STILL FAILS")
        print(still[0])
        return 1
    if p.returncode == 2:
        print("re-verification on the current tree: undecided\n" + "\n".join(l for l in p.stdout.split("\n") if "UNDECIDED" in l)[:600])
        return rc or 2
    print("re-verification on the current tree: the obligation is discharged" + (" (or is a listed known finding)" if known else ""))
    return rc


def main():
    args = sys.argv[1:]
    if not args:
        print(__doc__)
        return 2
    if args[0] == "--replay":
        return replay_main(args[1:])
    prop = args[0]
    tier = os.environ.get("VERIF_TIER", "quick")
    if "--tier" in args:
        tier = args[args.index("--tier") + 1]
    seed = int(os.environ.get("VERIF_SEED", "0") or 0)
    t0 = time.time()
    ensure_vx()
    os.makedirs(BUILD, exist_ok=True)
    idx = unit_index()
    units = [n for n, v in idx.items() if prop in v["serves"] and (tier == "thorough" or v["tier"] == "A")]
    if os.environ.get("VERIF_ONLY_UNIT"):
        units = [n for n in units if n == os.environ["VERIF_ONLY_UNIT"]]
    if not units:
        log("no unit serves %s" % prop)
        return 2
    results = {}
    with concurrent.futures.ThreadPoolExecutor(max_workers=16) as ex:
        futs = {ex.submit(analyse_unit, n, True): n for n in units}
        for f in concurrent.futures.as_completed(futs):
            results[futs[f]] = f.result()

    # extra, property-specific static scans (closed-world call-site scans)
    import scans  # noqa: E402
    scan_results = scans.run(prop, REPO, idx)

    known = load_known()
    undecided = []
    violations = []
    known_hits = []
    for n in sorted(results):
        r = results[n]
        if r.status == "undecided":
            undecided.append((n, r.reason, r.raw_diag))
            continue
        if r.canary_bad:
            undecided.append((n, "vacuous proof: `ensures false` canary verified for %s" % r.canary_bad, ""))
        default_prop = "C10" if "C10" in idx[n]["serves"] else (idx[n]["serves"][0] if idx[n]["serves"] else prop)
        for fl in r.failures:
            if (fl.get("label") or "").startswith("UNDECIDED."):
                undecided.append((n, "an obligation that belongs to no property could not be discharged (%s) in %s" % (fl["label"], fl.get("function")), fl.get("rendered", "")))
                continue
            props = label_props(fl["label"])
            if not props:
                # an obligation without a label of its own (overflow, termination, an unlabelled
                # invariant or hint): it belongs to every property named by the contract of the
                # function it occurs in (and to C10 where the unit serves it)
                props = [default_prop]
                if fl.get("function") and r.unit is not None:
                    for f_ in r.unit.functions:
                        if f_["key"] == fl["function"]:
                            a, b = f_["gen_lines"]
                            for ln, lab in r.unit.labels.items():
                                if a <= ln <= b:
                                    for p_ in label_props(lab):
                                        if p_ not in props:
                                            props.append(p_)
                fname = (fl["function"] or "?").split(".")[-1]
                fl["label_full"] = "%s.%s.unlabelled:%s" % ("+".join(props), fname, fl["message"])
            else:
                fl["label_full"] = fl["label"]
            if prop not in props:
                continue
            k = match_known(known, prop, fl)
            if k:
                known_hits.append((k, fl))
            else:
                violations.append(fl)
    for s in scan_results:
        if s["status"] == "violation":
            fl = {"unit": "scan:" + s["scan"], "message": s["what"], "label": s["label"], "label_full": s["label"],
                  "function": s.get("function"), "site": s.get("site"), "rendered": s["what"]}
            k = match_known(known, prop, fl)
            if k:
                known_hits.append((k, fl))
            else:
                violations.append(fl)
        elif s["status"] == "undecided":
            undecided.append(("scan:" + s["scan"], s["what"], ""))

    # ------------------------------------------------------------------ evidence
    n_obl = 0
    n_dis = 0
    fn_under_contract = []
    assumed_contracts = set()
    proved_keys = set()
    used_keys = set()
    frozen_items = set()
    rules_fired = {}
    trusted_scan = {}
    samples = []
    solver_ms = 0
    per_unit = {}
    # contracts proved anywhere (over all units, not only those of this property)
    all_proved = set()
    for n in idx:
        for l in open(os.path.join(VERIF, "units", n + ".rs")):
            if l.strip().startswith("//@prove"):
                all_proved.add(l.split()[1])
    for n in sorted(results):
        r = results[n]
        if r.unit is None:
            continue
        fb = [f for f in r.functions]
        n_obl += len(fb)
        n_dis += len([f for f in fb if f.get("success")])
        solver_ms += r.smt_ms
        per_unit[n] = {"verus_functions": len(fb), "verified": r.verified, "errors": r.errors,
                       "smt_ms": r.smt_ms, "wall_ms": r.total_ms, "canaries_run": r.canary_ran,
                       "canaries_vacuous": r.canary_bad}
        for f in r.unit.functions:
            if f["mode"] == "prove":
                proved_keys.add(f["key"])
                fn_under_contract.append({"unit": n, "key": f["key"], "file": f["file"], "line": f["repo_line"],
                                          "sha256": f["sha256"][:16], "rules_fired": f["fired"],
                                          "requires": f["n_requires"], "ensures": f["n_ensures"],
                                          "loop_clauses": f["n_loop_clauses"]})
                for k, v in f["fired"].items():
                    rules_fired[k] = rules_fired.get(k, 0) + v
            elif f["mode"] == "use":
                used_keys.add(f["key"])
            elif f["mode"] == "frozen":
                frozen_items.add("%s :: %s" % (f["file"], f["selector"]))
        for k, v in vxbuild.scan_trusted(r.unit).items():
            trusted_scan[k] = trusted_scan.get(k, 0) + v
        for ln, lab in sorted(r.unit.labels.items()):
            if prop in label_props(lab) and len(samples) < 40:
                samples.append({"unit": n, "obligation": lab, "clause": r.unit.lines[ln - 1][0].strip()[:200]})
    # function-level queries that failed only on obligations labelled for OTHER properties
    other_failed = []
    for n in sorted(results):
        r = results[n]
        if r.unit is None:
            continue
        mine = set()
        for fl in r.failures:
            if prop in (label_props(fl["label"]) or ["C10" if "C10" in idx[n]["serves"] else (idx[n]["serves"] or [prop])[0]]):
                mine.add(fl.get("function"))
        for fl in r.failures:
            if fl.get("function") not in mine:
                other_failed.append({"unit": n, "function": fl.get("function"), "obligation": fl.get("label") or fl["message"]})
    failed_fn_other = set((o["unit"], o["function"]) for o in other_failed)
    # functions whose only failures are listed known findings are accounted for separately
    viol_fns = set((fl["unit"], fl.get("function")) for fl in violations)
    for k_, fl in known_hits:
        if (fl["unit"], fl.get("function")) not in viol_fns:
            failed_fn_other.add((fl["unit"], fl.get("function")))
    n_other_failed = 0
    for n in sorted(results):
        r = results[n]
        for f in r.functions:
            if not f.get("success"):
                # a failed Verus query; is it one of the functions that failed only for other properties?
                nm = f.get("function", "")
                matched = False
                for (u_, k_) in failed_fn_other:
                    if u_ == n and k_ and nm.split("::")[-1].replace("__canary", "") == k_.split(".")[-1]:
                        matched = True
                        break
                if not matched and not any(fl["unit"] == n for fl in violations):
                    # a failed query in a unit with no violation for this property: it belongs to
                    # another property or to a listed known finding (e.g. extracted static initialisers)
                    matched = any(u_ == n for (u_, k_) in failed_fn_other)
                if matched:
                    n_other_failed += 1
    assumed_contracts = sorted(k for k in used_keys if k not in all_proved)
    proved_elsewhere = sorted(k for k in used_keys if k in all_proved and k not in proved_keys)
    trusted_base = []
    trusted_base.append("kernel/library axioms A0-A10 (incl. A5b) of DESIGN.md 4.2, stated as postconditions of external_body stubs in /verif/prelude")
    trusted_base.append("Verus 0.2026.09.13 + Z3 (SMT back end); machine integers are Verus fixed-width types (overflow is an obligation)")
    trusted_base.append("vx rewrite rules fired (DESIGN.md section 3): " + json.dumps(rules_fired, sort_keys=True))
    trusted_base.append("trusted constructs in the generated units (mechanical scan): " + json.dumps(trusted_scan, sort_keys=True))
    if assumed_contracts:
        trusted_base.append("ASSUMED contracts (used as external_body, proved by no unit): " + ", ".join(assumed_contracts))
    if frozen_items:
        trusted_base.append("repository items represented by a hand-written stub and NOT verified (their text is hash-frozen; a change makes the check undecided): " + "; ".join(sorted(frozen_items)))
    if proved_elsewhere:
        trusted_base.append("contracts used here and proved in another unit: " + ", ".join(proved_elsewhere))
    for s in scan_results:
        trusted_base.append("scan %s: %s" % (s["scan"], s["what"]))

    wall = time.time() - t0
    ev = {
        "property_id": prop, "tier": tier, "seed": seed, "level": "proof",
        "coverage": {
            "obligations": n_obl - n_other_failed, "discharged": n_dis,
            "checker_cmd": "verus <unit>.rs --multiple-errors 40 --output-json --time-expanded --error-format=json --rlimit %s  (one run per unit: %s; plus one `ensures false` canary run per unit)" % (RLIMIT, ", ".join(sorted(results))),
            "trusted_base": trusted_base,
            "back_end": "Verus/Z3",
            "solver_ms": solver_ms,
            "units": per_unit,
            "functions_under_contract": fn_under_contract,
            "labelled_clauses_for_property": len([1 for r in results.values() if r.unit for l in r.unit.labels.values() if prop in label_props(l)]),
            "samples": samples,
            "explanation": "obligations = SMT queries reported by Verus (one per function/proof body, each bundling that function's postconditions, callee preconditions, loop invariants, termination and panic-freedom conditions); discharged = those Verus reports as success.  A query that fails only because of a listed known finding, or only in an obligation labelled for a different property, is NOT counted in either number: it is listed under known_finding_obligations / failed_obligations_of_other_properties instead (%d such queries on this run).  The functions concerned are therefore not claimed as proved for this property." % n_other_failed,
            "undecided": [{"unit": u, "reason": why} for (u, why, _) in undecided],
            "known_findings_matched": [k.get("what", "") for k, _ in known_hits],
            "failed_obligations_of_other_properties": other_failed,
            "known_finding_obligations": [fl["label_full"] + " @ " + str((fl.get("site") or {}).get("file")) for k_, fl in known_hits],
        },
        "assumptions": trusted_base,
        "wall_s": round(wall, 2),
        "violations": len(violations),
    }
    if tier == "thorough" and not violations and not undecided and os.environ.get("VERIF_NO_SELFTEST") != "1":
        # thorough tier: sensitivity exploration -- every deliberate edit / seeded change recorded for this
        # property is applied to a scratch copy of /repo and must be reported (or, for the harmless ones, not)
        try:
            p = subprocess.run([sys.executable, os.path.join(VERIF, "tools", "selftest.py"), "--json", prop],
                               capture_output=True, text=True, timeout=7200)
            st = json.loads(p.stdout.strip().split("\n")[-1]) if p.stdout.strip() else []
        except Exception as e:  # noqa: BLE001
            st = [{"id": "selftest", "outcome": "could not run: %r" % e, "as_expected": False}]
        ev["coverage"]["thorough_mutation_selftest"] = {
            "what": "deliberate property-breaking edits (selftest/mutants.json) and independently seeded changes (seeded/*) applied to scratch copies; each must fail a named obligation (harmless ones must not)",
            "run": len(st), "as_expected": len([x for x in st if x.get("as_expected")]),
            "not_as_expected": [x for x in st if not x.get("as_expected")],
            "results": [{k: x.get(k) for k in ("id", "prop", "outcome", "obligation")} for x in st],
        }
    ev["wall_s"] = round(time.time() - t0, 2)
    if n_obl == 0:
        ev["coverage"]["obligations"] = 0
    evdir = os.environ.get("VERIF_EVIDENCE_DIR") or os.path.join(VERIF, "evidence")
    os.makedirs(evdir, exist_ok=True)
    with open(os.path.join(evdir, prop + ".json"), "w") as f:
        json.dump(ev, f, indent=1)

    # ------------------------------------------------------------------ report
    for k, fl in known_hits:
        print("KNOWN-FINDING: property=%s %s" % (prop, k.get("what", fl["label_full"])))
    rc = 0
    if violations:
        import replay  # noqa: E402
        os.makedirs(os.path.join(VERIF, "replays"), exist_ok=True)
        seen = set()
        for fl in violations:
            key = (fl["label_full"], fl.get("function"), json.dumps(fl.get("site"), sort_keys=True))
            if key in seen:
                continue
            seen.add(key)
            path, found = replay.write_replay(prop, fl, results)
            tail = "" if found else " no-failing-input-found"
            print("VIOLATION property=%s replay=%s%s" % (prop, path, tail))
            log("  failed obligation [%s] in %s at %s: %s" % (fl["label_full"], fl.get("function"), fl.get("site"), fl["message"]))
        rc = 1
    if undecided:
        for u, why, diag in undecided:
            log("UNDECIDED %s: %s" % (u, why))
            if diag:
                log(diag[:3000])
        if rc == 0:
            rc = 2
    if rc == 0:
        if n_obl == 0 or n_dis + n_other_failed != n_obl:
            log("UNDECIDED: obligations=%d discharged=%d" % (n_obl, n_dis))
            return 2
        print("OK property=%s tier=%s units=%s obligations=%d discharged=%d wall=%.1fs" % (
            prop, tier, ",".join(sorted(results)), n_obl - n_other_failed, n_dis, wall))
    return rc


if __name__ == "__main__":
    sys.exit(main())
