#!/usr/bin/env python3
"""constcheck.py: cross-checks the libc constants modelled in prelude/flags.rs against this platform's values as Python's
errno / os / stat modules report them (they are generated from the C headers), and RESOLVE_* / RENAME_* / AT_FDCWD against
the kernel uapi headers when those are installed.  Exit 1 on a mismatch."""
import errno, os, re, stat, sys
VERIF = os.path.dirname(os.path.dirname(os.path.abspath(__file__)))
src = open(os.path.join(VERIF, "prelude", "flags.rs")).read()
mod = src[src.index("pub mod libc {"):]
mod = mod[:mod.index("\n}\n")]
bad = 0
checked = 0
hdr = ""
for h in ("/usr/include/linux/openat2.h", "/usr/include/linux/fs.h", "/usr/include/linux/fcntl.h", "/usr/include/linux/magic.h"):
    if os.path.exists(h):
        hdr += open(h).read()
for m in re.finditer(r"pub const (\w+): \w+ = ([^;]+);", mod):
    name, val = m.group(1), m.group(2).strip()
    v = int(val.replace("_", ""), 0) if not val.startswith("0o") else int(val[2:], 8)
    ref = None
    if name.startswith("E") and hasattr(errno, name):
        ref = getattr(errno, name)
    elif name.startswith("O_") and hasattr(os, name):
        ref = getattr(os, name)
    elif name.startswith("S_") and isinstance(getattr(stat, name, None), int):
        ref = getattr(stat, name)
    else:
        mm = re.search(r"#define\s+%s\s+\(?\s*(-?(?:0x[0-9a-fA-F]+|[0-9]+))\s*(?:<<\s*([0-9]+))?\s*\)?" % name, hdr)
        if mm:
            ref = int(mm.group(1), 0) << int(mm.group(2) or 0)
        elif name == "S_IFMT":
            ref = stat.S_IFMT(0o7777777)
    if ref is None:
        print("unchecked: %s = %s" % (name, val))
        continue
    checked += 1
    if ref != v:
        print("MISMATCH: %s model=%d platform=%d" % (name, v, ref))
        bad += 1
print("constcheck: %d constants cross-checked, %d mismatches" % (checked, bad))
sys.exit(1 if bad else 0)
