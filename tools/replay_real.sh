#!/bin/bash
# usage: replay_real.sh <module.rs> <test-name-filter> [extra cargo args]
# Appends the given #[cfg(test)] module to src/lib.rs of a scratch copy of /repo's working
# tree, runs the matching tests offline, removes the copy.  Exit status = cargo test's.
set -u
MOD="$1"; FILTER="$2"; shift 2
REPO="${VERIF_REPO:-/repo}"
SCR="$(mktemp -d /tmp/verif-replay-XXXXXX)"
trap 'rm -rf "$SCR"' EXIT
rsync -a --exclude .git "$REPO"/ "$SCR"/
cat "$MOD" >> "$SCR/src/lib.rs"
cd "$SCR" && CARGO_NET_OFFLINE=true cargo test --offline --lib "$FILTER" "$@" -- --nocapture --test-threads 1 2>&1 | tail -40
exit ${PIPESTATUS[0]}
