#!/usr/bin/env python3
"""Assemble a Verus unit file from a unit template, contract specs and /repo text.

unit template  (/verif/units/<U>.rs):  ordinary Verus text plus directive lines
    //@include <path relative to /verif>
    //@prove   <contract key>          body extracted from /repo, contract spliced in
    //@use     <contract key>          signature extracted from /repo, contract spliced in,
    //                                 body replaced by unimplemented!() (external_body)
    //@item    <src file> :: <selector> [| subst-name ...]   verbatim non-fn item
    //@canary                          (ignored in normal builds)

contract spec  (/verif/contracts/<key>.spec):  see DESIGN.md section 13.
"""
import hashlib
import json
import os
import re
import subprocess
import sys
import difflib

VERIF = os.path.dirname(os.path.dirname(os.path.abspath(__file__)))
REPO = os.environ.get("VERIF_REPO", "/repo")
VX = os.path.join(VERIF, "vx", "target", "debug", "vx")

LABEL_RE = re.compile(r"//\s*\[([A-Za-z0-9_+.,\-]+)\]\s*$")


class LostAnchor(Exception):
    pass


def run_vx(job):
    p = subprocess.run([VX], input=json.dumps(job), capture_output=True, text=True)
    if p.returncode != 0 or not p.stdout.strip():
        raise LostAnchor("vx failed: %s %s" % (p.stdout[-2000:], p.stderr[-2000:]))
    r = json.loads(p.stdout)
    if not r.get("ok"):
        raise LostAnchor(r.get("error", "unknown vx error"))
    return r


class Spec:
    def __init__(self, key, path):
        self.key = key
        self.path = path
        self.file = None
        self.selector = None
        self.nth = None
        self.rules = []
        self.hints = {}
        self.ret = "r"
        self.attrs = []
        self.requires = []
        self.ensures = []
        self.decreases = []
        self.extra = []       # raw clause lines (e.g. "no_unwind")
        self.loops = {}       # n -> [lines]
        self.inserts = []     # (anchor, [lines])
        self.substs = []
        self.lates = []
        self.sig = None       # full replacement of the signature text (rare)
        self.nocanary = None
        self.var_requires = {}
        self.var_ensures = {}
        self.parse(open(path).read())

    def parse(self, text):
        lines = text.split("\n")
        i = 0
        cur = None
        while i < len(lines):
            ln = lines[i]
            s = ln.strip()
            if s.startswith("@item"):
                m = re.match(r"@item\s+(\S+)\s*::\s*(.+?)(?:\s+#(\d+))?$", s)
                if not m:
                    raise ValueError("%s: bad @item: %s" % (self.path, s))
                self.file, self.selector = m.group(1), m.group(2).strip()
                if m.group(3):
                    self.nth = int(m.group(3))
                cur = None
            elif s.startswith("@rules"):
                self.rules = s.split()[1:]
                cur = None
            elif s.startswith("@hint"):
                for kv in s.split()[1:]:
                    k, v = kv.split("=")
                    self.hints[k] = v
                cur = None
            elif s.startswith("@ret"):
                self.ret = s.split()[1]
                cur = None
            elif s.startswith("@attr"):
                self.attrs.append(s[len("@attr"):].strip())
                cur = None
            elif s.startswith("@nocanary"):
                self.nocanary = s[len("@nocanary"):].strip() or "no reason given"
                cur = None
            elif s.startswith("@sig"):
                self.sig = s[len("@sig"):].strip()
                cur = None
            elif s == "@requires":
                cur = self.requires
            elif s == "@ensures":
                cur = self.ensures
            elif re.match(r"@requires\[(\w+)\]$", s):
                cur = self.var_requires.setdefault(re.match(r"@requires\[(\w+)\]$", s).group(1), [])
            elif re.match(r"@ensures\[(\w+)\]$", s):
                cur = self.var_ensures.setdefault(re.match(r"@ensures\[(\w+)\]$", s).group(1), [])
            elif s == "@decreases":
                cur = self.decreases
            elif s == "@extra":
                cur = self.extra
            elif s.startswith("@proved-as"):
                self.proved_as = s.split()[1]
                cur = None
            elif s.startswith("@loop"):
                n = int(s.split()[1])
                cur = self.loops.setdefault(n, [])
            elif s.startswith("@insert"):
                anchor = s[len("@insert"):].strip()
                body = []
                self.inserts.append((anchor, body))
                cur = body
            elif s.startswith("@subst") or s.startswith("@late"):
                is_late = s.startswith("@late")
                parts = s.split()
                name = parts[1]
                count = None
                phase = "pre"
                for p in parts[2:]:
                    if p.startswith("count="):
                        count = "*" if p[6:] == "*" else int(p[6:])
                    elif p.startswith("phase="):
                        phase = p[6:]
                i += 1
                assert lines[i].strip() == "<<<", "%s: expected <<< after @subst" % self.path
                i += 1
                pat = []
                while lines[i].strip() != "===":
                    pat.append(lines[i])
                    i += 1
                i += 1
                rep = []
                while lines[i].strip() != ">>>":
                    rep.append(lines[i])
                    i += 1
                if is_late:
                    # plain-text replacement on the final text (for Verus-only syntax that the extractor's
                    # Rust parser cannot read); must keep the number of lines
                    self.lates.append({"name": name, "pat": "\n".join(pat).strip("\n"), "rep": "\n".join(rep).strip("\n"), "count": count})
                else:
                    self.substs.append({"name": name, "pat": "\n".join(pat), "rep": "\n".join(rep).strip("\n"),
                                        "count": count, "phase": phase})
                cur = None
            elif s.startswith("@"):
                raise ValueError("%s: unknown directive %s" % (self.path, s))
            elif cur is not None:
                if s and not s.startswith("#"):
                    cur.append(ln.rstrip())
            i += 1
        if not self.file:
            raise ValueError("%s: no @item" % self.path)


_spec_cache = {}


def global_substs():
    """Rewrites applied to every proved function (all `count=*`): std items that would otherwise put a changed function
    outside the modelled subset although a contract can judge them (contracts/_global.spec)."""
    path = os.path.join(VERIF, "contracts", "_global.spec")
    if "_global" not in _spec_cache:
        _spec_cache["_global"] = Spec("_global", path).substs if os.path.exists(path) else []
    return _spec_cache["_global"]


def load_spec(key):
    if key not in _spec_cache:
        path = os.path.join(VERIF, "contracts", key + ".spec")
        if not os.path.exists(path):
            raise ValueError("no contract spec for key %s" % key)
        _spec_cache[key] = Spec(key, path)
    return _spec_cache[key]


def line_map(orig_text, orig_start_line, new_text):
    """Map each line of new_text to a line number of the repo file (or None)."""
    a = orig_text.split("\n")
    b = new_text.split("\n")
    sm = difflib.SequenceMatcher(None, [x.strip() for x in a], [x.strip() for x in b], autojunk=False)
    res = [None] * len(b)
    for tag, i1, i2, j1, j2 in sm.get_opcodes():
        if tag == "equal":
            for k in range(j2 - j1):
                res[j1 + k] = orig_start_line + i1 + k
        else:
            # changed region: point every new line at the first original line of the region
            for j in range(j1, j2):
                res[j] = orig_start_line + min(i1, len(a) - 1)
    return res


_frozen = None
_all_proved = None


def all_proved_keys():
    global _all_proved
    if _all_proved is None:
        acc = set()
        import glob
        for p in glob.glob(os.path.join(VERIF, "units", "U*.rs")):
            for l in open(p):
                if l.strip().startswith("//@prove"):
                    acc.add(l.split()[1])
        _all_proved = acc          # publish only when complete (units are built from several threads)
    return _all_proved


def check_frozen(spec, orig_text):
    """An *assumed* contract (used, proved by no unit) was reviewed against one particular text of the
    function.  If that text changes, the assumption has to be re-reviewed: undecided, never an alarm."""
    global _frozen
    if spec.key in all_proved_keys() or spec.key.split("__")[0] in all_proved_keys():
        return
    if getattr(spec, "proved_as", None) in all_proved_keys():
        return          # same function text is proved under another key (e.g. with the lock made explicit)
    if _frozen is None:
        fp = os.path.join(VERIF, "contracts", "frozen.json")
        loaded = json.load(open(fp)) if os.path.exists(fp) else {}
        _frozen = loaded
    h = hashlib.sha256(orig_text.encode()).hexdigest()
    if os.environ.get("VERIF_FREEZE") == "1":
        _frozen[spec.key] = h
        json.dump(_frozen, open(os.path.join(VERIF, "contracts", "frozen.json"), "w"), indent=1, sort_keys=True)
        return
    want = _frozen.get(spec.key)
    if want is None:
        raise LostAnchor("assumed contract %s has no reviewed text hash in contracts/frozen.json" % spec.key)
    if want != h:
        raise LostAnchor("the text of %s (%s) changed, but its contract %s is only ASSUMED (proved by no unit) and was reviewed against the old text" % (spec.selector, spec.file, spec.key))


def clause_block(kw, lines, indent="        "):
    if not lines:
        return []
    out = ["    " + kw]
    for l in lines:
        out.append(indent + l.strip())
    return out


class Unit:
    """Result of assembling one unit: text lines with origins."""

    def __init__(self, name):
        self.name = name
        self.lines = []        # (text, origin) origin = None | ("repo", file, line) | ("spec", key) | ("tpl", file, line)
        self.functions = []    # dicts describing proved / used functions
        self.labels = {}       # generated line number (1-based) -> label
        self.trusted = []      # scan results
        self.serves = []
        self.tier = "A"
        self.broadcasts = []
        self.no_global = set()

    def emit(self, text, origin=None):
        for l in text.split("\n"):
            self.lines.append((l, origin))

    def text(self):
        return "\n".join(l for l, _ in self.lines) + "\n"


def splice_function(u, spec, mode, canary=False, variants=(), rename=None):
    job = {"file": os.path.join(REPO, spec.file), "selector": spec.selector, "rules": spec.rules,
           "hints": spec.hints, "substs": (spec.substs + [g for g in global_substs() if g["name"].split(".")[0] not in u.no_global]) if mode == "prove" else
           [s for s in spec.substs if s["name"].startswith("sig")]}
    if spec.nth is not None:
        job["nth"] = spec.nth
    if mode == "use":
        job["rules"] = []
    elif "R9" not in job["rules"]:
        job["rules"] = list(job["rules"]) + ["R9"]      # assert!/debug_assert! are obligations in every proved function
    r = run_vx(job)
    if mode == "use":
        check_frozen(spec, r["orig"])
    text = r["text"]
    sig = r["sig"]
    body_open = sig["body_open"]
    head = text[:body_open]
    body = text[body_open:]
    if sig["ret"] is not None:
        ts, te = sig["ret"]
        head = head[:ts] + "(" + spec.ret + ": " + head[ts:te] + ")" + head[te:]
    if spec.sig:
        head = spec.sig + " "
    # loop clauses + inserts are positioned on `body` offsets (relative to body_open)
    edits = []  # (offset_in_text, string)
    if mode == "prove":
        loops_gone = bool(spec.loops) and len(r["loops"]) == 0     # loop-free rewrite of the function: the
        # invariants are proof aids for loops that no longer exist; the function's own clauses still decide
        for n, lines in ({} if loops_gone else spec.loops).items():
            if n < 1 or n > len(r["loops"]):
                raise LostAnchor("%s: @loop %d but function has %d loops" % (spec.key, n, len(r["loops"])))
            off = r["loops"][n - 1]["body_open"]
            edits.append((off, "\n" + "\n".join("            " + l.strip() for l in lines) + "\n        "))
        if len(spec.loops) != len([l for l in r["loops"]]) and spec.loops and not loops_gone:
            # every loop of a proved function must carry an invariant block, otherwise the
            # function changed shape (new loop): fail closed
            missing = [k + 1 for k in range(len(r["loops"])) if (k + 1) not in spec.loops]
            if missing:
                raise LostAnchor("%s: loops %s have no @loop block (function shape changed)" % (spec.key, missing))
        for anchor, lines in spec.inserts:
            ins = "\n" + "\n".join("        " + l.strip() for l in lines) + "\n"
            m = re.match(r"loop (\d+) before$", anchor)
            if m:
                # on the line before the n-th loop statement (whatever its keyword or condition looks like)
                n = int(m.group(1))
                if loops_gone:
                    continue
                if n > len(r["loops"]):
                    raise LostAnchor("%s: @insert loop %d before: no such loop" % (spec.key, n))
                kw = r["loops"][n - 1]["kw"]
                ls = text.rfind("\n", 0, kw) + 1
                edits.append((ls, ins.lstrip("\n")))
                continue
            m = re.match(r"loop (\d+) head$", anchor)
            if m:
                n = int(m.group(1))
                if loops_gone:
                    continue
                if n > len(r["loops"]):
                    raise LostAnchor("%s: @insert loop %d head: no such loop" % (spec.key, n))
                edits.append((r["loops"][n - 1]["body_open"] + 1, ins))
                continue
            if anchor == "fn tail":
                # right before the final statement / result expression of the function body
                t = sig.get("tail")
                if t is None:
                    raise LostAnchor("%s: @insert fn tail: empty body" % spec.key)
                ls = text.rfind("\n", 0, t) + 1
                edits.append((ls, ins.lstrip("\n")))
                continue
            if anchor == "fn head":
                edits.append((body_open + 1, ins))
                continue
            m = re.match(r"(before|after) #\* `(.*)`$", anchor)
            if m:
                # every occurrence (zero occurrences is fine: nothing to annotate)
                where, needle = m.group(1), m.group(2)
                start = body_open
                while True:
                    pos = text.find(needle, start)
                    if pos < 0:
                        break
                    start = pos + 1
                    if where == "before":
                        ls = text.rfind("\n", 0, pos) + 1
                        edits.append((ls, ins.lstrip("\n")))
                    else:
                        le = text.find("\n", pos)
                        edits.append((le, ins.rstrip("\n")))
                continue
            m = re.match(r"(before|after) #(\d+) `(.*)`$", anchor)
            if m:
                where, k, needle = m.group(1), int(m.group(2)), m.group(3)
                pos = -1
                start = body_open
                for _ in range(k):
                    pos = text.find(needle, start)
                    if pos < 0:
                        break
                    start = pos + 1
                if pos < 0:
                    raise LostAnchor("%s: @insert anchor %r (#%d) not found" % (spec.key, needle, k))
                if where == "before":
                    # go back to the start of the line
                    ls = text.rfind("\n", 0, pos) + 1
                    edits.append((ls, ins.lstrip("\n")))
                else:
                    le = text.find("\n", pos)
                    edits.append((le, ins.rstrip("\n")))
                continue
            raise ValueError("%s: bad @insert anchor %r" % (spec.key, anchor))
    # apply body edits (offsets are in `text` coordinates)
    new_body = body
    for off, s in sorted(edits, key=lambda e: -e[0]):
        o = off - body_open
        new_body = new_body[:o] + s + new_body[o:]

    if mode == "prove":
        for lt in spec.lates:
            n = new_body.count(lt["pat"])
            if lt["count"] != "*" and n != (lt["count"] if lt["count"] is not None else 1):
                raise LostAnchor("%s: @late %s fired %d times" % (spec.key, lt["name"], n))
            if lt["pat"].count("\n") != lt["rep"].count("\n"):
                raise ValueError("%s: @late %s changes the number of lines" % (spec.key, lt["name"]))
            new_body = new_body.replace(lt["pat"], lt["rep"])

    def emit_copy(is_canary):
        contract = []
        req = list(spec.requires)
        ens = list(spec.ensures)
        for v in variants:
            req += spec.var_requires.get(v, [])
            ens += spec.var_ensures.get(v, [])
        contract += clause_block("requires", req)
        if is_canary:
            ens = ens + ["false, // [CANARY.%s]" % spec.key]
        contract += clause_block("ensures", ens)
        contract += clause_block("decreases", spec.decreases)
        for l in spec.extra:
            contract.append("    " + l.strip())
        hd = head
        if rename:
            hd2 = re.sub(r"\bfn\s+%s\b" % re.escape(sig["name"]), "fn %s" % rename, hd, count=1)
            if hd2 == hd:
                raise LostAnchor("%s: cannot rename function to %s" % (spec.key, rename))
            hd = hd2
        if is_canary:
            hd2 = re.sub(r"\bfn\s+%s\b" % re.escape(sig["name"]), "fn %s__canary" % sig["name"], hd, count=1)
            if hd2 == hd:
                raise LostAnchor("%s: cannot rename function for the canary copy" % spec.key)
            hd = hd2
        start_line = len(u.lines) + 1
        for a in spec.attrs:
            u.emit(a, ("spec", spec.key))
        if mode == "use":
            u.emit("#[verifier::external_body]", ("spec", spec.key))
        lm = line_map(r["orig"], r["start_line"], text)
        head_lines = hd.rstrip().split("\n")
        for k, l in enumerate(head_lines):
            u.emit(l, ("repo", spec.file, lm[k] if k < len(lm) else None))
        for l in contract:
            u.emit(l, ("spec", spec.key))
            m = LABEL_RE.search(l)
            if m and (is_canary == m.group(1).startswith("CANARY.")):
                u.labels[len(u.lines)] = m.group(1)
        if mode == "use":
            u.emit("{ unimplemented!() }", ("spec", spec.key))
        else:
            full = head + new_body
            lm2 = line_map(r["orig"], r["start_line"], full)
            body_lines = new_body.split("\n")
            base = len(head.split("\n")) - 1
            for k, l in enumerate(body_lines):
                idx = base + k
                u.emit(l, ("repo", spec.file, lm2[idx] if idx < len(lm2) else None))
                m = LABEL_RE.search(l)
                if m and not is_canary:
                    u.labels[len(u.lines)] = m.group(1)
        return start_line

    fn_start_line = emit_copy(False)
    fn_end_line = len(u.lines)
    has_canary = False
    if canary and mode == "prove" and not spec.nocanary:
        emit_copy(True)
        has_canary = True
    u.functions.append({
        "key": spec.key, "mode": mode, "file": spec.file, "selector": spec.selector,
        "name": sig["name"], "repo_line": r["start_line"],
        "sha256": hashlib.sha256(r["orig"].encode()).hexdigest(),
        "fired": r.get("fired", {}), "dropped_attrs": r.get("dropped_attrs", []),
        "gen_lines": [fn_start_line, fn_end_line], "has_canary": has_canary, "nocanary": spec.nocanary,
        "n_requires": len(spec.requires), "n_ensures": len(spec.ensures),
        "n_loop_clauses": sum(len(v) for v in spec.loops.values()),
        "orig": r["orig"], "rewritten": text,
    })


def build_unit(name, canary=False):
    tpl_path = os.path.join(VERIF, "units", name + ".rs")
    u = Unit(name)
    _expand(u, tpl_path, canary)
    auto = _auto_consts(u)
    first = True
    i = 0
    while i < len(u.lines):
        l, o = u.lines[i]
        if l == "//@@BROADCAST@@":
            stmt = "broadcast use {%s};" % ", ".join(u.broadcasts) if u.broadcasts else ""
            u.lines[i] = (stmt, o)
            if first and auto:
                # module-level constants of the repository that a proved function refers to and the template does not
                # define (a literal replaced by a named constant): taken over verbatim, their value is what the proof sees
                for k, (txt, origin) in enumerate(auto):
                    u.lines.insert(i + 1 + k, (txt, origin))
                # everything below moved down by len(auto) lines (line numbers are 1-based; the marker is line i+1)
                n = len(auto)
                u.labels = {(ln + n if ln > i + 1 else ln): lab for ln, lab in u.labels.items()}
                for f in u.functions:
                    a, b = f["gen_lines"]
                    if a > i + 1:
                        f["gen_lines"] = [a + n, b + n]
            first = False
        i += 1
    return u


_CONST_USE = re.compile(r"(?<![:\w])([A-Z][A-Z0-9_]{2,})\b(?!\s*(?:::|\(|!))")


def _auto_consts(u):
    text = "\n".join(l for l, _ in u.lines)
    out = []
    seen = set()
    for f in u.functions:
        if f.get("mode") != "prove":
            continue
        txt = f.get("rewritten", "")
        names = set()
        for m in _CONST_USE.finditer(txt):
            b = m.start(1)
            if b >= 1 and txt[b - 1] == "." and not (b >= 2 and txt[b - 2] == "."):
                continue        # a field / method, not `..CONST`
            names.add(m.group(1))
        for name in names:
            if name in seen or re.search(r"\b(const|static|fn|struct|enum|type)\s+%s\b" % re.escape(name), text):
                continue
            seen.add(name)
            src = os.path.join(REPO, f["file"])
            try:
                body = open(src).read()
            except OSError:
                continue
            cut = body.find("#[cfg(test)]\nmod ")
            if cut >= 0:
                body = body[:cut]
            if not re.search(r"^\s*(pub(\([a-z]+\))?\s+)?const\s+%s\s*:" % re.escape(name), body, re.M):
                continue
            try:
                r = run_vx({"file": src, "selector": "const " + name, "rules": [], "substs": []})
            except Exception:
                continue
            for l in r["text"].split("\n"):
                out.append((l, ("repo", f["file"], None)))
    return out


def _expand(u, path, canary):
    with open(path) as f:
        src = f.read().split("\n")
    rel = os.path.relpath(path, VERIF)
    for ln, line in enumerate(src, 1):
        s = line.strip()
        if s.startswith("//@serves"):
            u.serves = s.split()[1:]
        elif s.startswith("//@tier"):
            u.tier = s.split()[1]
        elif s.startswith("//@no-global"):
            u.no_global |= set(s.split()[1:])
        elif s.startswith("//@broadcast-here"):
            u.emit("//@@BROADCAST@@", ("tpl", rel, ln))
        elif s.startswith("//@broadcast"):
            u.broadcasts += s.split()[1:]
        elif s.startswith("//@include"):
            inc = s.split()[1]
            _expand(u, os.path.join(VERIF, inc), canary)
        elif s.startswith("//@frozen"):
            # a prelude stub stands for this repository item, which is NOT verified: its text was reviewed
            # once; if it changes the stub has to be re-reviewed (undecided, never an alarm)
            m = re.match(r"//@frozen\s+(\S+)\s*::\s*(.+)$", s)
            if not m:
                raise ValueError("%s:%d bad //@frozen" % (rel, ln))
            file, selector = m.group(1), m.group(2).strip()
            r = run_vx({"file": os.path.join(REPO, file), "selector": selector, "rules": [], "substs": []})
            class _S:  # minimal spec-like object for check_frozen
                pass
            sp = _S()
            sp.key = "item:%s::%s" % (file, selector)
            sp.selector = selector
            sp.file = file
            check_frozen(sp, r["orig"])
            u.functions.append({"key": sp.key, "mode": "frozen", "file": file, "selector": selector, "name": selector,
                                "repo_line": r["start_line"], "sha256": hashlib.sha256(r["orig"].encode()).hexdigest(),
                                "fired": {}, "dropped_attrs": [], "gen_lines": [0, 0], "orig": r["orig"], "rewritten": "",
                                "n_requires": 0, "n_ensures": 0, "n_loop_clauses": 0})
        elif s.startswith("//@use-missing"):
            # stubs (with their contracts) for every listed wrapper this unit has not declared itself, so
            # that code which starts to call one of them is checked against its precondition instead of
            # being rejected as "cannot find function"
            have = set(f["key"].split("__")[0] for f in u.functions)
            for key in s.split()[1:]:
                if key not in have:
                    splice_function(u, load_spec(key), "use", canary, ())
        elif s.startswith("//@prove") or s.startswith("//@use"):
            mode = "prove" if s.startswith("//@prove") else "use"
            key = s.split()[1]
            opts = s.split()[2:]
            rename = None
            for o in list(opts):
                if o.startswith("as="):
                    rename = o[3:]
                    opts.remove(o)
            splice_function(u, load_spec(key), mode, canary, tuple(opts), rename)
        elif s.startswith("//@item"):
            m = re.match(r"//@item\s+(\S+)\s*::\s*([^|]+?)(?:\s*\|\s*(.*))?$", s)
            if not m:
                raise ValueError("%s:%d bad //@item" % (rel, ln))
            file, selector, substs = m.group(1), m.group(2).strip(), m.group(3)
            job = {"file": os.path.join(REPO, file), "selector": selector, "rules": [], "substs": []}
            if substs:
                for sn in substs.split():
                    sp = load_spec(sn)
                    job["substs"] += sp.substs
                    job["rules"] += sp.rules
            r = run_vx(job)
            lm = line_map(r["orig"], r["start_line"], r["text"])
            item_start = len(u.lines) + 1
            for k, l in enumerate(r["text"].split("\n")):
                u.emit(l, ("repo", file, lm[k] if k < len(lm) else None))
                ml = LABEL_RE.search(l)
                if ml:
                    u.labels[len(u.lines)] = ml.group(1)
            item_end = len(u.lines)
            u.functions.append({"key": "item:" + file + "::" + selector, "mode": "item", "file": file,
                                "selector": selector, "name": selector, "repo_line": r["start_line"],
                                "sha256": hashlib.sha256(r["orig"].encode()).hexdigest(),
                                "fired": r.get("fired", {}), "dropped_attrs": [], "gen_lines": [item_start, item_end],
                                "orig": r["orig"], "rewritten": r["text"],
                                "n_requires": 0, "n_ensures": 0, "n_loop_clauses": 0})
        else:
            u.emit(line, ("tpl", rel, ln))
            m = LABEL_RE.search(line)
            if m:
                u.labels[len(u.lines)] = m.group(1)


TRUST_PATTERNS = ["assume(", "admit(", "external_body", "assume_specification", "#[verifier::external",
                  "exec_allows_no_decreases_clause", "uninterp spec fn", "#[verifier::external_fn_specification"]


def scan_trusted(u):
    hits = {}
    for (l, origin) in u.lines:
        for p in TRUST_PATTERNS:
            if p in l:
                hits[p] = hits.get(p, 0) + 1
    return hits


if __name__ == "__main__":
    name = sys.argv[1]
    canary = "--canary" in sys.argv
    try:
        u = build_unit(name, canary)
    except LostAnchor as e:
        print("LOST ANCHOR:", e, file=sys.stderr)
        sys.exit(2)
    out = os.path.join(VERIF, "build", name + ("_canary" if canary else "") + ".rs")
    os.makedirs(os.path.dirname(out), exist_ok=True)
    with open(out, "w") as f:
        f.write(u.text())
    print(out)
