#!/bin/bash
# usage: replay_strace.sh <module.rs> <test-name-filter> <strace inject expr>
# Like replay_real.sh but runs the test binary under strace fault injection.
set -u
MOD="$1"; FILTER="$2"; INJECT="$3"
REPO="${VERIF_REPO:-/repo}"
SCR="$(mktemp -d /tmp/verif-replay-XXXXXX)"
trap 'rm -rf "$SCR"' EXIT
rsync -a --exclude .git "$REPO"/ "$SCR"/
cat "$MOD" >> "$SCR/src/lib.rs"
cd "$SCR" || exit 2
BIN=$(CARGO_NET_OFFLINE=true cargo test --offline --lib --no-run --message-format=json 2>/dev/null | python3 -c "
import sys, json
for l in sys.stdin:
    try: d = json.loads(l)
    except Exception: continue
    if d.get('reason') == 'compiler-artifact' and d.get('executable') and d.get('target', {}).get('name') == 'pathrs': print(d['executable'])
" | tail -1)
[ -n "$BIN" ] || { echo "build failed"; exit 2; }
strace -f -o /dev/null -e trace=openat2 -e "inject=$INJECT" "$BIN" "$FILTER" --nocapture --test-threads 1 2>&1 | tail -25
exit ${PIPESTATUS[0]}
