#!/usr/bin/env python3
"""Regenerates /verif/MANIFEST.json from the table below and the units present."""
import glob
import json
import os
import re

VERIF = os.path.dirname(os.path.dirname(os.path.abspath(__file__)))

TEXT = {
    "C01": ("Contract proof (Verus) over the extracted path splitting, emulated walk (do_resolve/check_current), openat2 backend and Resolver dispatch: a complete lookup returns a handle with ghost lineage+witness for every path/tree, link budget and termination by loop measure, and on a static ghost tree the walk equals the kernel-walk spec function; the symlink stack used for partial lookups is proved against an abstract view and specification (U25).",
            "kernel axioms A1-A4, std/rustix models (A7), vx rewrite rules; errno classes beyond ENOENT/ENOTDIR/ELOOP not compared"),
    "C02": ("Same contracts as C01 with every syscall result left arbitrary between calls (each syscall boundary is a preemption point): a handle leaves a resolver only with the ghost fact `witnessed` (procfs path check after the walk, or the kernel's own in-root lookup), never on the strength of walking down alone.",
            "relative to axioms A1-A3 (procfs witness); the kernel is not verified"),
    "C03": ("Every mutating *at wrapper has the precondition 'directory has ghost lineage, name is a single component'; Verus discharges it at every call site of root.rs / utils/dir.rs for all argument paths and all syscall results.",
            "A1 (walk-down), A8 (readdir names), resolve() postcondition; kernel refuses '.'/'..' as final names of *at calls; known finding D14 (partial-lookup handle of the emulated backend is not verified against the root)"),
    "C04": ("Both backends are specified against the same kernel-walk spec function (emulated side proved, kernel side by axiom A4); one-shot open table, NUL handling and flag helpers as function contracts.",
            "only lookups/open table/NUL; errno, F_GETFL and resulting-tree equality are not expressible as contracts and are not claimed"),
    "C05": ("The syscall discipline is the set of preconditions of the wrappers in syscalls.rs (single component, dirfd-relative, O_NOFOLLOW/O_CLOEXEC/O_NOCTTY inserted, fixed RESOLVE_* masks); wrappers are proved to establish it towards rustix, callers are proved against it, and a closed-world scan enumerates every path-taking call site.",
            "A7 (rustix passes arguments through); syscalls inside std/rustix internals are listed as unverified"),
    "C06": ("Contracts on ProcfsHandle / procfs resolver / fd utilities: every descriptor returned carries ghost is_procfs and mount-id-checked facts established by the verify_* functions, which are themselves extracted and proved.",
            "A5 (mount ids identify mounts); conditional on the kernel reporting mount ids; known finding D16 (open_follow follows an ordinary symlink with a plain openat)"),
    "C07": ("Contracts on the procfs resolvers: '..' gives EXDEV, absolute link bodies ELOOP, O_NOFOLLOW forced by open(), creation flags refused before any syscall, one followed component in open_follow; on a static ghost tree the O_PATH procfs resolver is proved equal to a spec function of the kernel walk including the O_PATH/O_NOFOLLOW/O_DIRECTORY final-component table (U24).",
            "live /proc equality of the two backends is not decided; U24 assumes no syscall faults (static_no_faults) and the flag sets ProcfsHandle uses; known finding D17 (magic-link with a relative-looking body walked as an ordinary symlink)"),
    "C08": ("Termination measure on the ProcfsHandle::open retry (at most one unmasked retry) proved by Verus (`decreases`).",
            "none beyond the prelude models"),
    "C09": ("Contracts on proc_subpath / reopen / open_follow: the path is thread-self/fd/<n> for every n >= 0, symlink handles give ELOOP, creation flags refused, O_NOFOLLOW stripped.",
            "A6 (magic-link reopen opens the same inode)"),
    "C10": ("Every syscall stub may fail with any errno at every call in every unit; expect/unwrap/unreachable!/assert! are panic-freedom obligations; loops carry measures; postconditions rule out Ok for work not done.",
            "functions not under contract; remove_all's scan loop and the error-id retry loop have no measure (stated)"),
    "C11": ("Descriptor ownership is linear in the prelude (OwnedFd is not Clone, no forget); raw-fd escape hatches are enumerated by a scan and each is under contract (into_raw_fd only on Ok, borrow_raw only for non-negative fds); the openat2 wrapper is proved a second time with an explicit ledger of raw descriptors (nothing the kernel returned is dropped unowned); a ghost close-on-exec fact is carried from the syscall stubs through resolvers, Root, Handle and procfs to every returned descriptor.",
            "descriptors opened inside std/rustix (Dir::read_from), FrozenFd; Rc::try_unwrap uniqueness is assumed"),
    "C12": ("Contract proof of mkdir_all: mode validation before any syscall, '..' refused, each mkdirat on the lineage chain with the requested mode, only EEXIST tolerated, returned handle is the chain's end; every lookup goes through the Root's configured resolver (rigid ghost constant, from the public wrapper down to the backend call); the symlink stack that decides what a partial lookup reports is proved against its specification (U25) and the walk is proved never to make it report a broken stack (protocol invariant, U27).",
            "convergence of concurrent callers is not decided (mechanism only)"),
    "C13": ("Contract proof of utils::remove_all/remove_inode and Root::remove_all: '.'/'..'/'/'-containing names refused before any mutation, recursion only through O_NOFOLLOW|O_DIRECTORY opens of readdir names, only ENOENT swallowed and ENOENT never reported (a concurrent caller finished the removal).",
            "A1, A8; partial correctness only (no termination measure against an adversary)"),
    "C14": ("Contract proof of resolve_parent/create/create_file/remove_inode/rename: exactly the *at call on (lineage parent, split-off final name); trailing slash gives InvalidArgument; path_split's decomposition postcondition proved for all byte strings.",
            "kernel semantics of the *at call itself"),
    "C15": ("may_follow_link proved equal to the kernel rule (fs/namei.c) restated as a spec function, for all uid/mode/sysctl values; do_resolve applies it exactly to the trailing symlink of the walk (kernel: WALK_TRAILING only); the geteuid wrapper is proved to return the effective uid.",
            "geteuid vs fsuid approximation; sysctl value cached"),
    "C16": ("Contracts on store_error/pathrs_errorinfo/CError::from over a HashMap view under the single Mutex: id <= -4096, fresh, exact attribution, consume-once; every ERROR_MAP.lock() is a critical section and the map is arbitrary between two sections (interference by other threads); errno table of ErrorKind.",
            "A7 (Mutex, rand range); probabilistic termination of the id probe"),
    "C17": ("Contracts on the C boundary helpers and entry points: negative fds / NULL paths / unknown bases rejected before use, copy_path_into_buffer writes min(len, bufsize) bytes and returns len.",
            "the C caller's promise that buf has bufsize bytes"),
}

DESIGN_REF = "DESIGN.md section 6, %s"


def units_serving():
    m = {}
    for p in sorted(glob.glob(os.path.join(VERIF, "units", "U*.rs"))):
        for l in open(p):
            if l.strip().startswith("//@serves"):
                for c in l.split()[1:]:
                    m.setdefault(c, []).append(os.path.basename(p)[:-3])
    return m


def main():
    serving = units_serving()
    claimed_path = os.path.join(VERIF, "claimed.txt")
    claimed = [l.strip() for l in open(claimed_path) if l.strip() and not l.startswith("#")]
    checks = []
    na = [{"property_id": "C18", "reason": "relation between the text of include/pathrs.h, the Go/Python binding sources and the extern \"C\" items: a cross-artifact consistency check with no function whose pre/postcondition states it; no obligation a deductive program verifier could discharge (DESIGN.md section 6, C18)"}]
    for pid in sorted(TEXT):
        if pid in claimed and pid in serving:
            text, note = TEXT[pid]
            checks.append({
                "property_id": pid,
                "quick_cmd": "./check %s --tier quick" % pid,
                "thorough_cmd": "./check %s --tier thorough" % pid,
                "evidence_file": "/verif/evidence/%s.json" % pid,
                "replay_cmd_template": "./check --replay {path}",
                "engine": "verus-contracts",
                "level_claimed": {"category": "proof", "text": text, "design_ref": DESIGN_REF % pid},
                "level_note": note + "; units: " + " ".join(serving[pid]),
                "technique": "contract-based deductive verification: Verus (SMT/Z3) on functions extracted mechanically from /repo by vx on every run",
            })
        else:
            na.append({"property_id": pid, "reason": "machinery for this property is not finished in this revision of /verif (no check is registered rather than an unsound one); see DESIGN.md section 6, %s" % pid})
    man = {
        "version": 1,
        "setup_cmd": "cd /verif/vx && CARGO_NET_OFFLINE=true cargo build --offline",
        "hooks": {
            "guard": "none (no hook is committed to /repo; verification text is extracted from the unmodified sources)",
            "enable": "not needed: checks read /repo/src directly; real-code replays append #[cfg(test)] modules to scratch copies only",
            "baseline_off_cmd": "cd /repo && cargo nextest run --workspace --no-fail-fast --tool-config-file pb:/w/lib/nextest.toml --profile pb --test-threads 8 --offline",
            "source_commits": [],
            "add_only": True,
        },
        "engines": [{"name": "verus-contracts", "path": "/verif/check", "serves_properties": [c["property_id"] for c in checks],
                     "kind_free_text": "vx (syn-based extractor, span text edits) + contract specs + Verus 0.2026.09.13"}],
        "checks": checks,
        "not_applicable": na,
        "notes": "Exit 2 of a check means undecided (lost anchor / unsupported construct / tool failure / vacuous proof), never a violation. Fix commits in /repo are recorded in known_findings.json as status=fixed.",
    }
    with open(os.path.join(VERIF, "MANIFEST.json"), "w") as f:
        json.dump(man, f, indent=1)
    print("MANIFEST: %d checks, %d not_applicable" % (len(checks), len(na)))


if __name__ == "__main__":
    main()
