#!/bin/bash
# usage: confirm_seed.sh <change-dir with patch.diff + demo.rs>
# Confirms on scratch copies of /repo: the demo passes without the change and fails with it.
set -u
D="$(cd "$1" && pwd)"
MOD=$(grep -oE "^\s*(pub\s+)?mod\s+\w+" "$D/demo.rs" | head -1 | awk '{print $NF}')
[ -n "$MOD" ] || { echo "no mod name"; exit 2; }
SCR="$(mktemp -d /tmp/verif-seed-XXXXXX)"
trap 'rm -rf "$SCR"' EXIT
rsync -a --exclude .git /repo/ "$SCR"/
cd "$SCR" || exit 2
cat "$D/demo.rs" >> src/lib.rs
CARGO_NET_OFFLINE=true cargo test --offline ${CONFIRM_CARGO_ARGS:-} --lib "$MOD" -- --test-threads 1 > "$SCR/base.log" 2>&1
B=$?
git init -q . 2>/dev/null
patch -p1 -s < "$D/patch.diff" || { echo "patch failed"; exit 2; }
CARGO_NET_OFFLINE=true cargo test --offline ${CONFIRM_CARGO_ARGS:-} --lib "$MOD" -- --test-threads 1 > "$SCR/mut.log" 2>&1
M=$?
echo "demo module $MOD: unmodified exit=$B ($(grep -E '^test result' "$SCR/base.log" | tail -1)) ; with change exit=$M ($(grep -E '^test result' "$SCR/mut.log" | tail -1))"
[ $B -eq 0 ] && [ $M -ne 0 ]
