#!/usr/bin/env python3
"""try_seeds.py <dir with <PROP>-<n>/patch.diff> [all] : applies each candidate property-breaking change to a scratch copy of
/repo (never to /repo itself) and runs the check of the property named by the directory (with `all`: every claimed check).
Prints per change the outcome (VIOLATION + first obligation / OK = missed / undecided)."""
import glob, os, shutil, subprocess, sys, tempfile, concurrent.futures
VERIF = os.path.dirname(os.path.dirname(os.path.abspath(__file__)))
claimed = [l.strip() for l in open(os.path.join(VERIF, "claimed.txt")) if l.strip() and not l.startswith("#")]
ALL = len(sys.argv) > 2 and sys.argv[2] == "all"


def one(patch):
    name = os.path.basename(os.path.dirname(patch))
    prop = name.split("-")[0]
    scr = tempfile.mkdtemp(prefix="verif-seedtry-")
    try:
        subprocess.run(["rsync", "-a", "--exclude", ".git", "--exclude", "target", "/repo/", scr + "/"], check=True)
        p = subprocess.run(["patch", "-p1", "-s", "-i", patch], cwd=scr, capture_output=True, text=True)
        if p.returncode != 0:
            return name, [("-", "patch-does-not-apply", p.stdout[:200])]
        res = []
        for c in (claimed if ALL else [prop]):
            env = dict(os.environ, VERIF_REPO=scr, VERIF_EVIDENCE_DIR=scr + "/.verif-evidence", VERIF_BUILD_DIR=scr + "/.verif-build", VERIF_NO_REPLAY="1", VERIF_NO_SELFTEST="1")
            r = subprocess.run([os.path.join(VERIF, "check"), c, "--tier", "quick"], capture_output=True, text=True, env=env)
            if r.returncode == 1:
                labs = [l.split("replay=")[1].split()[0].split("/")[-1][:-5] for l in r.stdout.split("\n") if l.startswith("VIOLATION")]
                res.append((c, "VIOLATION", "; ".join(labs[:3])))
            elif r.returncode != 0:
                why = [l for l in (r.stdout + r.stderr).split("\n") if "UNDECIDED" in l][:1]
                res.append((c, "undecided", why[0][:200] if why else ""))
            else:
                res.append((c, "OK", ""))
        return name, res
    finally:
        shutil.rmtree(scr, ignore_errors=True)


if __name__ == "__main__":
    patches = sorted(glob.glob(os.path.join(os.path.abspath(sys.argv[1]), "*", "patch.diff")))
    with concurrent.futures.ThreadPoolExecutor(max_workers=4) as ex:
        for name, res in ex.map(one, patches):
            own = name.split("-")[0]
            for c, st, what in res:
                if ALL and st == "OK" and c != own:
                    continue
                print("%-8s %-4s %-10s %s" % (name, c, st if not (st == "OK" and c == own) else "MISSED", what), flush=True)
