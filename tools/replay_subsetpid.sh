#!/bin/bash
# usage: replay_subsetpid.sh <module.rs> <test filter>: run a demonstration as uid 65534 with /proc mounted subset=pid
# private mount+pid namespace whose /proc is mounted with subset=pid (needs root, which we are).
set -u
MODFILE="$(cd "$(dirname "$1")" && pwd)/$(basename "$1")"; FILTER="$2"
REPO="${VERIF_REPO:-/repo}"
VERIF="$(cd "$(dirname "$0")/.." && pwd)"
SCR="$(mktemp -d /tmp/verif-replay-XXXXXX)"
trap 'rm -rf "$SCR"' EXIT
chmod 755 "$SCR"; touch "$SCR/strace.out"; chmod 666 "$SCR/strace.out"
rsync -a --exclude .git "$REPO"/ "$SCR"/
cat "$MODFILE" >> "$SCR/src/lib.rs"
cd "$SCR" || exit 2
BIN=$(CARGO_NET_OFFLINE=true cargo test --offline --lib --no-run --message-format=json 2>/dev/null | python3 -c "
import sys, json
for l in sys.stdin:
    try: d = json.loads(l)
    except Exception: continue
    if d.get('reason') == 'compiler-artifact' and d.get('executable') and d.get('target', {}).get('name') == 'pathrs': print(d['executable'])
" | tail -1)
[ -n "$BIN" ] || { echo "build failed"; exit 2; }
chmod -R a+rX "$SCR/target" 2>/dev/null
cp "$BIN" "$SCR/testbin" && chmod 755 "$SCR/testbin"
timeout 120 unshare -mpf --mount-proc sh -c "mount -t proc -o subset=pid proc /proc && cd / && setpriv --reuid=65534 --regid=65534 --clear-groups strace -f -c -e trace=openat,openat2,fsopen,open_tree -o $SCR/strace.out $SCR/testbin $FILTER --nocapture --test-threads 1" 2>&1 | grep -vE "^\s+[0-9]+:|^\s+at " | tail -30
RC=${PIPESTATUS[0]}
echo "--- syscall counts"; grep -E "openat|fsopen|open_tree|total" "$SCR/strace.out" 2>/dev/null | head
exit $RC
