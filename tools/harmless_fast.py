#!/usr/bin/env python3
"""harmless_fast.py <dir with changeN/patch.diff> ... : like harmless.py, but verifies every unit only once per change: the
checks C10, C07, C01, C15 together cover all units; a failed obligation that belongs to another property is listed in their
evidence (failed_obligations_of_other_properties), so comparing that list with the list of the unchanged tree shows what ANY of
the 17 checks would report.  Outcome per change: OK / undecided (some unit could not be decided) / FALSE ALARM (an obligation
fails that does not fail on the unchanged tree)."""
import glob, json, os, shutil, subprocess, sys, tempfile, concurrent.futures
VERIF = os.path.dirname(os.path.dirname(os.path.abspath(__file__)))
COVER = ["C10", "C07", "C01", "C15"]


def failed_set(repo, scr):
    out, und = set(), []
    for c in COVER:
        env = dict(os.environ, VERIF_REPO=repo, VERIF_EVIDENCE_DIR=scr + "/.verif-evidence", VERIF_BUILD_DIR=scr + "/.verif-build", VERIF_NO_REPLAY="1", VERIF_NO_SELFTEST="1")
        r = subprocess.run([os.path.join(VERIF, "check"), c, "--tier", "quick"], capture_output=True, text=True, env=env)
        for l in r.stdout.split("\n"):
            if l.startswith("VIOLATION"):
                out.add(l.split("replay=")[1].split()[0].split("/")[-1][:-5].split("-", 2)[-1])
        if r.returncode == 2:
            und += [l[:160] for l in (r.stdout + r.stderr).split("\n") if "UNDECIDED" in l][:1]
        try:
            ev = json.load(open(scr + "/.verif-evidence/%s.json" % c))
            for o in ev["coverage"].get("failed_obligations_of_other_properties", []):
                if "UNDECIDED." not in str(o["obligation"]):      # an unprovable debug_assert! makes the check undecided, it is not reported
                    out.add("%s-%s" % (o["unit"], o["obligation"]))
        except Exception:
            pass
    return out, und


def one(patch):
    scr = tempfile.mkdtemp(prefix="verif-harmless-")
    try:
        subprocess.run(["rsync", "-a", "--exclude", ".git", "--exclude", "target", "/repo/", scr + "/"], check=True)
        if patch:
            p = subprocess.run(["patch", "-p1", "-s", "-i", patch], cwd=scr, capture_output=True, text=True)
            if p.returncode != 0:
                return patch, None, ["patch-does-not-apply"]
        return (patch,) + failed_set(scr, scr)
    finally:
        shutil.rmtree(scr, ignore_errors=True)


if __name__ == "__main__":
    _, base, _u = one(None)
    print("baseline (unchanged tree) failing obligations of listed known findings / other properties: %d" % len(base), flush=True)
    patches = []
    for d in sys.argv[1:]:
        patches += sorted(glob.glob(os.path.join(os.path.abspath(d), "*", "patch.diff")), key=lambda p: (len(p), p))
    bad = 0
    with concurrent.futures.ThreadPoolExecutor(max_workers=int(os.environ.get("HARMLESS_JOBS", "2"))) as ex:
        for patch, failed, und in ex.map(one, patches):
            name = "/".join(patch.split("/")[-3:-1])
            if failed is None:
                print(name, und[0]); continue
            new = sorted(failed - base)
            bad += 1 if new else 0
            print("%-16s %s%s" % (name, ("FALSE ALARM: " + "; ".join(new)) if new else ("undecided: " + und[0] if und else "OK"), (" (+undecided: %s)" % und[0]) if (new and und) else ""), flush=True)
    sys.exit(1 if bad else 0)
