#!/bin/bash
# usage: try_seed.sh <patch.diff> <prop> [<prop>...]  -- apply a seeded change to /repo, run the checks, revert.
P="$1"; shift
cd /repo || exit 2
git diff --quiet || { echo "/repo has uncommitted changes; refusing"; exit 2; }
git apply "$P" || { echo "patch does not apply"; exit 2; }
for c in "$@"; do
    VERIF_EVIDENCE_DIR=/tmp/verif-mut-evidence VERIF_NO_REPLAY=1 /verif/check "$c" > /tmp/try_seed_$c.log 2>&1
    echo "$c exit $?"; grep -E "^VIOLATION|UNDECIDED|^OK" /tmp/try_seed_$c.log | head -4 | cut -c1-220
done
git checkout -- . 
