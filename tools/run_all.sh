#!/bin/bash
# Runs every claimed check (quick tier unless an argument is given) on /repo's current tree;
# rewrites /verif/evidence/*.json.  Exit 0 only if every check exits 0.
cd "$(dirname "$0")/.."
TIER="${1:-quick}"
RC=0
for c in $(grep -v '^#' claimed.txt); do
    ./check "$c" --tier "$TIER" > "/tmp/verif-runall-$c.log" 2>&1
    rc=$?
    tail -1 "/tmp/verif-runall-$c.log" | cut -c1-160
    [ $rc -ne 0 ] && { echo "   ^ exit $rc"; RC=1; }
done
exit $RC
