"""Closed-world syntactic scans that accompany the contract proofs (DESIGN.md 4.3, C11).

The contracts decide the discipline of every call that goes through a stub; these scans make
sure there is no call *outside* that world: every path-taking / descriptor-juggling call site
in /repo/src (tests excluded) must be in the reviewed inventory /verif/scans/inventory.json,
where each entry names the unit whose contract covers it (or says why it needs none).
A call site that is not in the inventory makes the check undecided (exit 2), never an alarm.
"""
import json
import os
import re

VERIF = os.path.dirname(os.path.dirname(os.path.abspath(__file__)))

PATTERNS = {
    "C05": [r"\bsyscalls::(\w+)\s*\(", r"\brustix_fs::(\w+)\s*\(", r"\brustix_mount::(\w+)\s*\(", r"\blibc::(syscall)\s*\(",
            r"\bfs::(read_link|remove_file|remove_dir|remove_dir_all|rename|create_dir|create_dir_all|File|OpenOptions|hard_link|copy|metadata|symlink_metadata|read_dir|canonicalize)\b",
            r"\b(Dir::read_from)\s*\(", r"\.(try_clone_to_owned)\s*\(", r"\bFile::(open|create)\s*\(", r"\b(OpenOptions)::new"],
    "C11": [r"\b(from_raw_fd)\s*\(", r"\.(into_raw_fd)\s*\(", r"\b(borrow_raw)\s*\(", r"\bmem::(forget)\s*\(", r"\b(ManuallyDrop)\b",
            r"\bBox::(leak|from_raw|into_raw)\s*\(", r"\.(into_raw)\s*\(", r"\blibc::(close|dup|dup2|dup3)\s*\("],
}
IGNORED = {"AT_FDCWD", "BADFD", "Error", "OpenHow", "FrozenFd", "OPENAT2_IS_SUPPORTED", "RENAME_FLAGS_SUPPORTED"}


def strip_tests(text):
    """drop `#[cfg(test)] mod x { ... }` blocks and #[cfg(test)] items (brace matching)"""
    out = []
    i = 0
    while True:
        m = re.search(r"#\[cfg\(test\)\]", text[i:])
        if not m:
            out.append(text[i:])
            break
        s = i + m.start()
        out.append(text[i:s])
        # skip to the end of the following item
        j = text.find("{", s)
        k = text.find(";", s)
        if k != -1 and (j == -1 or k < j):
            i = k + 1
            continue
        depth = 0
        p = j
        while p < len(text):
            c = text[p]
            if c == "{":
                depth += 1
            elif c == "}":
                depth -= 1
                if depth == 0:
                    break
            p += 1
        # keep line structure
        out.append("\n" * text[s:p + 1].count("\n"))
        i = p + 1
    return "".join(out)


def strip_comments(text):
    text = re.sub(r"//[^\n]*", "", text)
    text = re.sub(r"(?ms)^\s*(pub(\([a-z]+\))?\s+)?use\s[^;]*;", lambda m: "\n" * m.group(0).count("\n"), text)
    return re.sub(r"/\*.*?\*/", lambda m: "\n" * m.group(0).count("\n"), text, flags=re.S)


def enclosing_fn(text, pos):
    best = None
    for m in re.finditer(r"\bfn\s+(\w+)", text[:pos]):
        best = m.group(1)
    return best or "<static>"


def collect(repo, prop):
    sites = {}
    src = os.path.join(repo, "src")
    for root, dirs, files in os.walk(src):
        if os.path.relpath(root, src).split(os.sep)[0] == "tests":
            continue
        for f in files:
            if not f.endswith(".rs") or f == "tests.rs":
                continue
            p = os.path.join(root, f)
            rel = os.path.relpath(p, repo)
            text = strip_comments(strip_tests(open(p).read()))
            for pat in PATTERNS[prop]:
                for m in re.finditer(pat, text):
                    name = m.group(1)
                    if name in IGNORED:
                        continue
                    key = "%s::%s::%s" % (rel, enclosing_fn(text, m.start()), name)
                    sites[key] = sites.get(key, 0) + 1
    return sites


ERROR_VALUE_BUILDERS = [
    ("src/syscalls.rs", "impl From<Fd> for FrozenFd fn from"),
    ("src/utils/fd.rs", "impl FdExt for Fd fn as_unsafe_path_unchecked"),
    ("src/procfs.rs", "impl ProcfsBase fn into_path"),
]
INFALLIBLE_WRAPPERS = {"gettid", "geteuid", "getpid", "AT_FDCWD"}


def scan_error_value_construction(repo):
    """C10: every `syscalls::X(..)` wrapper builds a FrozenFd for its error value; FrozenFd::from calls
    as_unsafe_path_unchecked, which calls ProcfsBase::into_path.  If one of these three calls an
    error-constructing wrapper, a failing probe recurses without bound (finding D11).  Syntactic
    obligation: their texts contain no call of a fallible `syscalls::` wrapper."""
    import vxbuild
    res = []
    for f, sel in ERROR_VALUE_BUILDERS:
        try:
            r = vxbuild.run_vx({"file": os.path.join(repo, f), "selector": sel, "rules": [], "substs": []})
        except Exception as e:  # lost anchor
            res.append({"scan": "C10.error_value_construction", "status": "undecided",
                        "what": "cannot locate %s in %s: %s" % (sel, f, e), "label": "C10.scan.lost_anchor"})
            continue
        text = strip_comments(r["orig"])
        for m in re.finditer(r"\bsyscalls::(\w+)\s*\(", text):
            if m.group(1) not in INFALLIBLE_WRAPPERS:
                line = r["start_line"] + text[:m.start()].count("\n")
                res.append({"scan": "C10.error_value_construction", "status": "violation",
                            "label": "C08+C10.frozenfd.error_value_construction_calls_no_fallible_wrapper",
                            "function": sel, "site": {"file": f, "line": line, "text": "syscalls::%s(" % m.group(1)},
                            "what": "%s (%s:%d) calls the error-constructing wrapper syscalls::%s while it is itself part of building every wrapper's error value (FrozenFd::from -> as_unsafe_path_unchecked -> into_path): unbounded recursion when that call fails" % (sel, f, line, m.group(1))})
    if not res:
        res.append({"scan": "C10.error_value_construction", "status": "ok", "label": "C10.scan.error_value_construction",
                    "what": "FrozenFd::from / as_unsafe_path_unchecked / ProcfsBase::into_path call no fallible syscalls:: wrapper (syntactic; D11)"})
    return res


def run(prop, repo, idx):
    if prop in ("C10", "C08"):
        return scan_error_value_construction(repo)
    if prop not in PATTERNS:
        return []
    inv_path = os.path.join(VERIF, "scans", "inventory.json")
    inv = json.load(open(inv_path)) if os.path.exists(inv_path) else {}
    expected = inv.get(prop, {})
    got = collect(repo, prop)
    res = []
    unknown = []
    for k, n in sorted(got.items()):
        e = expected.get(k)
        if e is None or e.get("count", 0) < n:
            unknown.append("%s x%d" % (k, n))
    if unknown:
        res.append({"scan": prop + ".closed_world", "status": "undecided",
                    "what": "call sites outside the reviewed inventory (not under any contract): " + "; ".join(unknown[:12]),
                    "label": prop + ".scan.uncovered_call_site"})
    else:
        res.append({"scan": prop + ".closed_world", "status": "ok",
                    "what": "%d call-site kinds (%d occurrences) in src/ all in the reviewed inventory; covered by: %s" % (
                        len(got), sum(got.values()), ", ".join(sorted(set(v.get("by", "?") for k, v in expected.items() if k in got)))),
                    "label": prop + ".scan.closed_world"})
    return res


if __name__ == "__main__":
    import sys
    for prop in PATTERNS:
        print(prop)
        for k, n in sorted(collect("/repo", prop).items()):
            print("   ", k, n)
