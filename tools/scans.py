"""Closed-world syntactic scans that accompany the contract proofs (DESIGN.md 4.3, C11)."""


def run(prop, repo, idx):
    return []
