#!/bin/bash
# usage: confirm_round3.sh <dir with <ID>/patch.diff + demo.rs (integration-test style)> ...
# One scratch copy of /repo (removed at the end): every demo is run on the unmodified tree first, then each change is applied,
# its demo run again, and the change reverted.  Prints one line per change.
set -u
SCR="$(mktemp -d /tmp/verif-confirm-XXXXXX)"
trap 'rm -rf "$SCR"' EXIT
rsync -a --exclude .git --exclude target /repo/ "$SCR"/
cd "$SCR" || exit 2
mkdir -p tests
declare -A DIRS
for G in "$@"; do
  for D in "$G"/C*; do
    [ -f "$D/demo.rs" ] && [ -f "$D/patch.diff" ] || continue
    ID=$(basename "$D" | tr '-' '_' | tr 'A-Z' 'a-z')
    cp "$D/demo.rs" "tests/r3_$ID.rs"
    DIRS[$ID]="$D"
  done
done
export CARGO_NET_OFFLINE=true
for ID in $(echo "${!DIRS[@]}" | tr ' ' '\n' | sort); do
  timeout 900 cargo test --offline --features capi -j 8 --test "r3_$ID" -- --test-threads 1 > "base_$ID.log" 2>&1; B=$?
  patch -p1 -s < "${DIRS[$ID]}/patch.diff" || { echo "$ID patch failed"; continue; }
  timeout 900 cargo test --offline --features capi -j 8 --test "r3_$ID" -- --test-threads 1 > "mut_$ID.log" 2>&1; M=$?
  patch -R -p1 -s < "${DIRS[$ID]}/patch.diff"
  echo "$ID unmodified exit=$B ($(grep -E '^test result' base_$ID.log | tail -1)) ; with change exit=$M ($(grep -E '^test result|timed out' mut_$ID.log | tail -1))"
done
