#!/bin/bash
# usage: try_harmless.sh <patch.diff>  -- apply a behaviour-preserving change to /repo, run EVERY claimed check, revert.
# Prints one line per property: OK / UNDECIDED (acceptable) / VIOLATION (a false alarm that has to be fixed).
P="$1"
cd /repo || exit 2
git diff --quiet || { echo "/repo has uncommitted changes; refusing"; exit 2; }
git apply "$P" || { echo "patch does not apply"; exit 2; }
out=""
for c in $(grep -v '^#' /verif/claimed.txt); do
    VERIF_EVIDENCE_DIR=/tmp/verif-mut-evidence VERIF_NO_REPLAY=1 /verif/check "$c" > /tmp/try_harmless_$c.log 2>&1
    rc=$?
    case $rc in 0) ;; 1) out="$out $c:VIOLATION($(grep -m1 '^VIOLATION' /tmp/try_harmless_$c.log | sed 's/.*replay=[^ ]*\/\([^ ]*\)\.json.*/\1/' | cut -c1-90))";; *) out="$out $c:undecided";; esac
done
git checkout -- .
echo "${out:- all OK}"
