#!/usr/bin/env python3
"""Mutation self-test: applies deliberate edits (selftest/mutants.json) and the seeded changes written by
independent sub-agents (seeded/*/patch.diff) to a scratch copy of /repo (never to /repo itself), runs the
listed checks against the copy and compares with the expected outcome.
usage: selftest.py [--json] [ids or property ids ...]"""
import json, os, shutil, subprocess, sys, tempfile, glob
VERIF = os.path.dirname(os.path.dirname(os.path.abspath(__file__)))


def load():
    muts = json.load(open(os.path.join(VERIF, "selftest", "mutants.json")))
    for d in sorted(glob.glob(os.path.join(VERIF, "seeded", "*", "meta.json"))):
        m = json.load(open(d))
        det = m.get("detected", "")
        muts.append({"id": "seed:" + m["id"], "patch": os.path.join(os.path.dirname(d), "patch.diff"), "props": [m["property"]],
                     "expect": m.get("expect") or ("violation" if "VIOLATION" in det else "undecided"), "why": m.get("needs_to_manifest", "")})
    return muts


def run(sel, quiet=False):
    results = []
    for m in load():
        if sel and not (m["id"] in sel or sel & set(m["props"])):
            continue
        scr = tempfile.mkdtemp(prefix="verif-selftest-")
        try:
            subprocess.run(["rsync", "-a", "--exclude", ".git", "--exclude", "target", "/repo/", scr + "/"], check=True)
            if "patch" in m:
                p = subprocess.run(["patch", "-p1", "-s", "-i", m["patch"]], cwd=scr, capture_output=True, text=True)
                if p.returncode != 0:
                    results.append({"id": m["id"], "prop": m["props"][0], "outcome": "patch-does-not-apply", "as_expected": False, "why": m["why"]})
                    continue
            else:
                p = os.path.join(scr, m["file"])
                s = open(p).read()
                if s.count(m["old"]) < 1:
                    results.append({"id": m["id"], "prop": m["props"][0], "outcome": "pattern-not-found", "as_expected": False, "why": m["why"]})
                    continue
                open(p, "w").write(s.replace(m["old"], m["new"], 1))
            for prop in m["props"]:
                if sel and not (m["id"] in sel or prop in sel):
                    continue
                env = dict(os.environ, VERIF_REPO=scr, VERIF_EVIDENCE_DIR=scr + "/.verif-evidence", VERIF_BUILD_DIR=scr + "/.verif-build", VERIF_NO_REPLAY="1", VERIF_TIER="quick")
                r = subprocess.run([os.path.join(VERIF, "check"), prop, "--tier", "quick"], capture_output=True, text=True, env=env)
                want = {"violation": 1, "ok": 0, "undecided": 2}[m["expect"]]
                lab = [l for l in r.stdout.split("\n") if l.startswith("VIOLATION")][:1]
                results.append({"id": m["id"], "prop": prop, "outcome": {0: "ok", 1: "violation", 2: "undecided"}.get(r.returncode, str(r.returncode)),
                                "expected": m["expect"], "as_expected": r.returncode == want, "why": m["why"],
                                "obligation": (lab[0].split("replay=")[1].split()[0].split("/")[-1][:-5] if lab else None)})
        finally:
            shutil.rmtree(scr, ignore_errors=True)
    return results


if __name__ == "__main__":
    args = sys.argv[1:]
    as_json = "--json" in args
    sel = set(a for a in args if not a.startswith("--"))
    res = run(sel)
    if as_json:
        print(json.dumps(res))
    else:
        for r in res:
            print("%-12s %-4s %-9s %s  %s  %s" % (r["id"], r["prop"], r["outcome"], "as-expected" if r["as_expected"] else "UNEXPECTED(expected %s)" % r.get("expected"), r["why"][:70], r.get("obligation") or ""))
    sys.exit(0 if all(r["as_expected"] for r in res) else 1)
