#!/usr/bin/env python3
"""Mutation self-test: applies each deliberate edit of /verif/selftest/mutants.json to a scratch copy of
/repo (never to /repo itself), runs the listed checks against the copy and compares with the expected
outcome (violation = exit 1 for every listed property; ok = exit 0).  usage: selftest.py [ids or props...]"""
import json, os, shutil, subprocess, sys, tempfile
VERIF = os.path.dirname(os.path.dirname(os.path.abspath(__file__)))
muts = json.load(open(os.path.join(VERIF, "selftest", "mutants.json")))
sel = set(sys.argv[1:])
bad = 0
for m in muts:
    if sel and not (m["id"] in sel or sel & set(m["props"])):
        continue
    scr = tempfile.mkdtemp(prefix="verif-selftest-")
    try:
        subprocess.run(["rsync", "-a", "--exclude", ".git", "--exclude", "target", "/repo/", scr + "/"], check=True)
        p = os.path.join(scr, m["file"])
        s = open(p).read()
        if s.count(m["old"]) < 1:
            print(m["id"], "PATTERN-NOT-FOUND"); bad += 1; continue
        open(p, "w").write(s.replace(m["old"], m["new"], 1))
        for prop in m["props"]:
            env = dict(os.environ, VERIF_REPO=scr, VERIF_EVIDENCE_DIR="/tmp/verif-mut-evidence", VERIF_NO_REPLAY="1")
            r = subprocess.run([os.path.join(VERIF, "check"), prop], capture_output=True, text=True, env=env)
            want = 1 if m["expect"] == "violation" else 0
            ok = (r.returncode == want)
            lab = [l for l in r.stdout.split("\n") if l.startswith("VIOLATION")][:1]
            print("%s %-4s %s exit=%d %s  %s" % (m["id"], prop, "as-expected" if ok else "UNEXPECTED", r.returncode, m["why"], (lab[0].split("replay=")[1][-70:] if lab else "")))
            if not ok:
                bad += 1
    finally:
        shutil.rmtree(scr, ignore_errors=True)
sys.exit(1 if bad else 0)
