#!/usr/bin/env python3
"""harmless.py <dir with changeN/patch.diff> : applies each behaviour-preserving change to a scratch copy of /repo (never to
/repo itself), runs EVERY claimed check against the copy and prints per change: all OK / which checks are undecided (exit 2,
acceptable) / which report a VIOLATION (a false alarm)."""
import glob, os, shutil, subprocess, sys, tempfile, concurrent.futures
VERIF = os.path.dirname(os.path.dirname(os.path.abspath(__file__)))
claimed = [l.strip() for l in open(os.path.join(VERIF, "claimed.txt")) if l.strip() and not l.startswith("#")]


def one(patch):
    scr = tempfile.mkdtemp(prefix="verif-harmless-")
    try:
        subprocess.run(["rsync", "-a", "--exclude", ".git", "--exclude", "target", "/repo/", scr + "/"], check=True)
        p = subprocess.run(["patch", "-p1", "-s", "-i", patch], cwd=scr, capture_output=True, text=True)
        if p.returncode != 0:
            return patch, "patch-does-not-apply", []
        res = []
        for c in claimed:
            env = dict(os.environ, VERIF_REPO=scr, VERIF_EVIDENCE_DIR=scr + "/.verif-evidence", VERIF_BUILD_DIR=scr + "/.verif-build", VERIF_NO_REPLAY="1", VERIF_NO_SELFTEST="1")
            r = subprocess.run([os.path.join(VERIF, "check"), c, "--tier", "quick"], capture_output=True, text=True, env=env)
            if r.returncode == 1:
                lab = [l for l in r.stdout.split("\n") if l.startswith("VIOLATION")][:1]
                res.append((c, "VIOLATION", lab[0].split("replay=")[1].split()[0].split("/")[-1][:-5] if lab else ""))
            elif r.returncode != 0:
                why = [l for l in (r.stdout + r.stderr).split("\n") if "UNDECIDED" in l][:1]
                res.append((c, "undecided", why[0][:140] if why else ""))
        return patch, "ran", res
    finally:
        shutil.rmtree(scr, ignore_errors=True)


if __name__ == "__main__":
    patches = sorted(glob.glob(os.path.join(os.path.abspath(sys.argv[1]), "*", "patch.diff")), key=lambda p: (len(p), p))
    bad = 0
    with concurrent.futures.ThreadPoolExecutor(max_workers=3) as ex:
        for patch, st, res in ex.map(one, patches):
            name = os.path.basename(os.path.dirname(patch))
            if st != "ran":
                print(name, st); continue
            v = [r for r in res if r[1] == "VIOLATION"]
            u = [r for r in res if r[1] == "undecided"]
            bad += len(v)
            print("%-10s %s%s%s" % (name, "all OK" if not res else "", (" FALSE ALARM: " + "; ".join("%s %s" % (a, c) for a, _, c in v)) if v else "",
                                    (" undecided: " + ", ".join(a for a, _, _ in u) + " (" + u[0][2] + ")") if u else ""), flush=True)
    sys.exit(1 if bad else 0)
