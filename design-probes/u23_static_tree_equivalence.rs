#![feature(allocator_api)]
use vstd::prelude::*;
use std::collections::VecDeque;
use std::rc::Rc;
verus! {

// ======================= prelude: flags ======================================
#[derive(Clone, Copy, PartialEq, Eq)]
pub struct OpenFlags { pub bits: i32 }
impl OpenFlags {
    pub const O_PATH: OpenFlags = OpenFlags { bits: 0o10000000 };
    pub const O_NOFOLLOW: OpenFlags = OpenFlags { bits: 0o400000 };
}
impl vstd::std_specs::ops::BitOrSpecImpl for OpenFlags {
    open spec fn obeys_bitor_spec() -> bool { true }
    open spec fn bitor_req(self, o: OpenFlags) -> bool { true }
    open spec fn bitor_spec(self, o: OpenFlags) -> OpenFlags { OpenFlags { bits: self.bits | o.bits } }
}
impl core::ops::BitOr for OpenFlags {
    type Output = OpenFlags;
    fn bitor(self, o: OpenFlags) -> (r: OpenFlags) { OpenFlags { bits: self.bits | o.bits } }
}
#[derive(Clone, Copy)]
pub struct ResolverFlags { pub bits: u64 }
impl ResolverFlags {
    pub const NO_SYMLINKS: ResolverFlags = ResolverFlags { bits: 0x04 };
    pub open spec fn nosym(&self) -> bool { self.bits & 0x04 == 0x04 }
    pub fn contains(&self, o: ResolverFlags) -> (r: bool) ensures r == (self.bits & o.bits == o.bits) { self.bits & o.bits == o.bits }
}

// ======================= ghost static file system ===========================
pub type Comp = Seq<u8>;
pub open spec fn DOT() -> Comp { seq![46u8] }
pub open spec fn DOTDOT() -> Comp { seq![46u8, 46u8] }
pub open spec fn EMPTY() -> Comp { Seq::<u8>::empty() }
pub open spec fn no_slash(p: Seq<u8>) -> bool { forall|i: int| 0 <= i < p.len() ==> p[i] != 47u8 }

pub uninterp spec fn fs_lookup(d: int, name: Comp) -> Option<int>;
pub uninterp spec fn fs_is_dir(i: int) -> bool;
pub uninterp spec fn fs_is_symlink(i: int) -> bool;
pub uninterp spec fn fs_target(i: int) -> Seq<u8>;
pub uninterp spec fn fs_depth(i: int) -> int;
pub uninterp spec fn fs_parent(i: int) -> int;
pub uninterp spec fn fs_root() -> int;
pub uninterp spec fn split(p: Seq<u8>) -> Seq<Comp>;
pub uninterp spec fn is_abs(p: Seq<u8>) -> bool;

pub open spec fn fs_wf() -> bool {
    &&& fs_is_dir(fs_root()) && fs_depth(fs_root()) == 0
    &&& (forall|d: int| #[trigger] fs_is_dir(d) ==> fs_lookup(d, DOT()) == Some(d) && fs_lookup(d, DOTDOT()) == Some(fs_parent(d)) && !fs_is_symlink(d))
    &&& (forall|d: int| #[trigger] fs_is_dir(d) && fs_depth(d) > 0 ==> fs_is_dir(fs_parent(d)) && fs_depth(fs_parent(d)) == fs_depth(d) - 1)
    &&& (forall|d: int| #[trigger] fs_is_dir(d) && fs_depth(d) == 0 ==> d == fs_root())
    &&& (forall|d: int, n: Comp| fs_is_dir(d) && n != DOT() && n != DOTDOT() ==> (#[trigger] fs_lookup(d, n) matches Some(c) ==> (fs_is_dir(c) ==> fs_depth(c) == fs_depth(d) + 1)))
}

pub enum KRes { Done(int), Fail(int) }
pub const ENOENT: i32 = 2;
pub const ENOTDIR: i32 = 20;
pub const ELOOP: i32 = 40;

pub open spec fn kres(cur: int, comps: Seq<Comp>, n: nat, nf: bool, nosym: bool) -> KRes
    decreases 128 - n, comps.len()
{
    if comps.len() == 0 {
        KRes::Done(cur)
    } else {
        let c0 = comps[0];
        let rest = comps.skip(1);
        let c = if c0 == EMPTY() { DOT() } else { c0 };
        if c == DOTDOT() && cur == fs_root() {
            kres(fs_root(), rest, n, nf, nosym)
        } else if !fs_is_dir(cur) {
            KRes::Fail(ENOTDIR as int)
        } else {
            match fs_lookup(cur, c) {
                None => KRes::Fail(ENOENT as int),
                Some(nx) => {
                    if !fs_is_symlink(nx) {
                        kres(nx, rest, n, nf, nosym)
                    } else if rest.len() == 0 && nf {
                        KRes::Done(nx)
                    } else if nosym {
                        KRes::Fail(ELOOP as int)
                    } else if n + 1 >= 128 {
                        KRes::Fail(ELOOP as int)
                    } else {
                        let t = fs_target(nx);
                        let comps2 = split(t) + rest;
                        if is_abs(t) { kres(fs_root(), comps2, n + 1, nf, nosym) } else { kres(cur, comps2, n + 1, nf, nosym) }
                    }
                }
            }
        }
    }
}

// ======================= prelude: opaque runtime types ======================
#[verifier::external_body]
pub struct OwnedFd { _p: () }
impl OwnedFd { pub uninterp spec fn ino(&self) -> int; }
#[verifier::external_body]
pub struct Error { _p: () }
impl Error { pub uninterp spec fn errno(&self) -> int; }
#[verifier::external_body]
pub struct SysError { _p: () }
impl SysError { pub uninterp spec fn errno(&self) -> int; }
#[verifier::external_body]
pub struct Metadata { _p: () }
impl Metadata {
    pub uninterp spec fn ino(&self) -> int;
    #[verifier::external_body]
    pub fn is_symlink(&self) -> (r: bool) ensures r == fs_is_symlink(self.ino()) { unimplemented!() }
}
pub struct OsString { pub b: Vec<u8> }
// expected_path as an abstract stack of components
#[verifier::external_body]
pub struct PathBuf { _p: () }
impl PathBuf {
    pub uninterp spec fn stack(&self) -> Seq<Comp>;   // only meaningful for expected_path
    pub uninterp spec fn bytes(&self) -> Seq<u8>;     // for link targets
    #[verifier::external_body]
    pub fn from_root() -> (r: PathBuf) ensures r.stack().len() == 0 { unimplemented!() }
    #[verifier::external_body]
    pub fn pop(&mut self) -> (r: bool)
        ensures r == (old(self).stack().len() > 0),
                r ==> final(self).stack() == old(self).stack().drop_last(),
                !r ==> final(self).stack() == old(self).stack(),
    { unimplemented!() }
    #[verifier::external_body]
    pub fn push(&mut self, p: &OsString)
        requires p.b@ != DOT(), p.b@ != DOTDOT(), p.b@ != EMPTY()
        ensures final(self).stack() == old(self).stack().push(p.b@)
    { unimplemented!() }
    #[verifier::external_body]
    pub fn is_absolute(&self) -> (r: bool) ensures r == is_abs(self.bytes()) { unimplemented!() }
}

impl OsString {
    #[verifier::external_body]
    pub fn eq_lit(&self, lit: &[u8]) -> (r: bool) ensures r == (self.b@ =~= lit@) { unimplemented!() }
    #[verifier::external_body]
    pub fn contains_byte(&self, c: u8) -> (r: bool) ensures r == !(forall|i: int| 0 <= i < self.b@.len() ==> self.b@[i] != c) { unimplemented!() }
    #[verifier::external_body]
    pub fn from_lit(lit: &[u8]) -> (r: OsString) ensures r.b@ == lit@ { unimplemented!() }
}

pub enum ErrKind { Safety, Os(i32), Raw(SysError), BadStack }
#[verifier::external_body]
pub fn mkerr(k: ErrKind) -> (r: Error)
    ensures (k matches ErrKind::Os(e) ==> r.errno() == e as int), (k matches ErrKind::Raw(s) ==> r.errno() == s.errno())
{ unimplemented!() }

pub enum PartialLookup {
    Complete(Rc<OwnedFd>),
    Partial { handle: Rc<OwnedFd>, remaining: PathBuf, last_error: Error },
}

pub open spec fn cv(q: Seq<OsString>) -> Seq<Comp> { q.map_values(|s: OsString| s.b@) }

#[verifier::external_body]
pub fn dup_root(root: &OwnedFd) -> (r: Result<OwnedFd, Error>)
    ensures r matches Ok(fd) ==> fd.ino() == root.ino()
{ unimplemented!() }

// static-tree contract of the step open (no faults in this unit)
#[verifier::external_body]
pub fn syscalls_openat(dirfd: &OwnedFd, path: &OsString, flags: OpenFlags, mode: u32) -> (r: Result<OwnedFd, SysError>)
    requires path.b@.len() > 0, no_slash(path.b@),
    ensures
        !fs_is_dir(dirfd.ino()) ==> (r matches Err(e) && e.errno() == ENOTDIR as int),
        fs_is_dir(dirfd.ino()) ==> match fs_lookup(dirfd.ino(), path.b@) {
            None => (r matches Err(e) && e.errno() == ENOENT as int),
            Some(i) => (r matches Ok(fd) && fd.ino() == i),
        },
{ unimplemented!() }

#[verifier::external_body]
pub fn syscalls_readlinkat_empty(fd: &OwnedFd) -> (r: Result<PathBuf, SysError>)
    ensures r matches Ok(p) ==> p.bytes() == fs_target(fd.ino())
{ unimplemented!() }

#[verifier::external_body]
pub fn check_current(current: &OwnedFd, root: &OwnedFd, expected: &PathBuf) -> (r: Result<(), Error>)
{ unimplemented!() }

#[verifier::external_body]
pub fn fd_metadata(fd: &OwnedFd) -> (r: Result<Metadata, Error>)
    ensures r matches Ok(m) ==> m.ino() == fd.ino()
{ unimplemented!() }
#[verifier::external_body]
pub fn may_follow_link(dir: &OwnedFd, link: &OwnedFd) -> (r: Result<(), Error>) { unimplemented!() }
#[verifier::external_body]
pub fn is_magiclink_filesystem(fd: &OwnedFd) -> (r: Result<bool, Error>) { unimplemented!() }

#[verifier::external_body]
pub fn collect_components(path: &[u8]) -> (r: VecDeque<OsString>)
    ensures cv(r@) == split(path@), forall|i: int| 0 <= i < r@.len() ==> no_slash(#[trigger] r@[i].b@)
{ unimplemented!() }
#[verifier::external_body]
pub fn prepend_components(target: &PathBuf, deque: &mut VecDeque<OsString>)
    ensures
        cv(final(deque)@) == split(target.bytes()) + cv(old(deque)@),
        (forall|i: int| 0 <= i < old(deque)@.len() ==> no_slash(#[trigger] old(deque)@[i].b@)) ==>
            (forall|i: int| 0 <= i < final(deque)@.len() ==> no_slash(#[trigger] final(deque)@[i].b@)),
{ unimplemented!() }
#[verifier::external_body]
pub fn join_remaining(part: &OsString, rest: &VecDeque<OsString>) -> PathBuf { unimplemented!() }

pub const MAX_SYMLINK_TRAVERSALS: usize = 128;
pub assume_specification<T, A: std::alloc::Allocator> [std::collections::VecDeque::<T, A>::is_empty] (q: &std::collections::VecDeque<T, A>) -> (r: bool)
    ensures r == (q@.len() == 0);

pub open spec fn cur_inv(cur: int, stack: Seq<Comp>) -> bool {
    &&& (fs_is_dir(cur) ==> fs_depth(cur) == stack.len())
    &&& (!fs_is_dir(cur) ==> stack.len() > 0)
}

pub open spec fn res_ok(res: Result<PartialLookup, Error>, goal: KRes) -> bool {
    match res {
        Ok(PartialLookup::Complete(h)) => goal == KRes::Done(h.ino()),
        Ok(PartialLookup::Partial { last_error, .. }) => goal == KRes::Fail(last_error.errno()),
        Err(_) => true,
    }
}

proof fn lemma_lits()
    ensures
        [46u8]@ =~= DOT(), [46u8, 46u8]@ =~= DOTDOT(),
        DOT() != DOTDOT(), DOT() != EMPTY(), DOTDOT() != EMPTY(),
        DOT().len() == 1, DOTDOT().len() == 2, EMPTY().len() == 0,
{
    assert(DOT()[0] == 46u8);
    assert(DOTDOT().len() == 2);
}
proof fn lemma_cv_pop(q: Seq<OsString>)
    requires q.len() > 0
    ensures cv(q.skip(1)) =~= cv(q).skip(1), cv(q)[0] == q[0].b@
{}

// ======================= extracted function (rewritten by hand = rules R1-R8) =
fn do_resolve(
    root: &OwnedFd,
    path: &[u8],
    flags: ResolverFlags,
    no_follow_trailing: bool,
) -> (res: Result<PartialLookup, Error>)
    requires fs_wf(), root.ino() == fs_root()
    ensures res_ok(res, kres(fs_root(), split(path@), 0, no_follow_trailing, flags.nosym()))
{
    let ghost goal = kres(fs_root(), split(path@), 0, no_follow_trailing, flags.nosym());
    let ghost nf = no_follow_trailing;
    let ghost ns = flags.nosym();
    let mut expected_path = PathBuf::from_root();

    let root = Rc::new(dup_root(root)?);
    let mut current = Rc::clone(&root);

    let mut remaining_components = collect_components(path);

    let mut symlink_traversals: usize = 0;
    loop
        invariant_except_break
            cur_inv(current.ino(), expected_path.stack()),
            goal == kres(current.ino(), cv(remaining_components@), symlink_traversals as nat, nf, ns),
        invariant
            fs_wf(), root.ino() == fs_root(),
            forall|i: int| 0 <= i < remaining_components@.len() ==> no_slash(#[trigger] remaining_components@[i].b@),
            symlink_traversals < MAX_SYMLINK_TRAVERSALS,
            nf == no_follow_trailing, ns == flags.nosym(),
            goal == kres(fs_root(), split(path@), 0, no_follow_trailing, flags.nosym()),
        ensures
            goal == KRes::Done(current.ino()),
        decreases MAX_SYMLINK_TRAVERSALS - symlink_traversals, remaining_components@.len()
    {
        let ghost q0 = remaining_components@;
        let ghost cur0 = current.ino();
        let ghost st0 = expected_path.stack();
        let part = match remaining_components.pop_front() { Some(p) => p, None => { 
            proof { assert(cv(q0).len() == 0); }
            break; } };
        proof {
            lemma_cv_pop(q0);
            assert(cv(remaining_components@) =~= cv(q0).skip(1));
            assert(cv(q0)[0] == part.b@);
            assert(cv(q0).len() > 0);
        }
        let ghost c0 = part.b@;
        let ghost rest = cv(remaining_components@);
        let remaining: PathBuf = join_remaining(&part, &remaining_components);

        proof { lemma_lits(); }
        let part = if part.eq_lit(&[]) {
            proof { assert(c0 =~= EMPTY()); }
            OsString::from_lit(&[46u8])
        } else if part.eq_lit(&[46u8]) {
            part
        } else if part.eq_lit(&[46u8, 46u8]) {
            if !expected_path.pop() {
                proof {
                    assert(c0 =~= DOTDOT());
                    assert(st0.len() == 0);
                    assert(fs_is_dir(cur0));
                    assert(cur0 == fs_root());
                    assert(goal == kres(cur0, cv(q0), symlink_traversals as nat, nf, ns));
                }
                current = Rc::clone(&root);
                continue;
            }
            part
        } else {
            expected_path.push(&part);
            if part.contains_byte(b'/') {
                return Err(mkerr(ErrKind::Safety));
            }
            part
        };

        proof {
            lemma_lits();
            let c = if c0 == EMPTY() { DOT() } else { c0 };
            assert(part.b@ == c);
            assert(goal == kres(cur0, cv(q0), symlink_traversals as nat, nf, ns));
            assert(cv(q0)[0] == c0);
            assert(cv(q0).skip(1) == rest);
            if c == DOTDOT() {
                assert(st0.len() > 0);
                assert(cur0 != fs_root());
            }
        }
        match (match syscalls_openat(
            &*current,
            &part,
            OpenFlags::O_PATH | OpenFlags::O_NOFOLLOW,
            0,
        ) { Ok(v) => Ok(v), Err(err) => Err(mkerr(ErrKind::Raw(err))) }) {
            Err(err) => {
                return Ok(PartialLookup::Partial {
                    handle: current,
                    remaining,
                    last_error: err,
                });
            }
            Ok(next) => {
                if part.eq_lit(&[46u8, 46u8]) {
                    check_current(&next, &*root, &expected_path)?;
                }

                if !fd_metadata(&next)?.is_symlink()
                {
                    current = Rc::new(next);
                    continue;
                } else {
                    if remaining_components.is_empty() && no_follow_trailing {
                        current = Rc::new(next);
                        break;
                    }

                    if flags.contains(ResolverFlags::NO_SYMLINKS) {
                        return Ok(PartialLookup::Partial {
                            handle: current,
                            remaining,
                            last_error: mkerr(ErrKind::Os(40)),
                        });
                    }

                    may_follow_link(&*current, &next)?;

                    symlink_traversals += 1;
                    if symlink_traversals >= MAX_SYMLINK_TRAVERSALS {
                        return Ok(PartialLookup::Partial {
                            handle: current,
                            remaining,
                            last_error: mkerr(ErrKind::Os(40)),
                        });
                    }

                    let link_target =
                        syscalls_readlinkat_empty(&next).map_err(|err| mkerr(ErrKind::Raw(err)))?;

                    if link_target.is_absolute()
                        && is_magiclink_filesystem(&next)?
                    {
                        return Err(mkerr(ErrKind::Os(40)));
                    }

                    expected_path.pop();

                    prepend_components(&link_target, &mut remaining_components);

                    if link_target.is_absolute() {
                        current = Rc::clone(&root);
                        expected_path = PathBuf::from_root();
                    }
                }
            }
        }
    }

    check_current(&*current, &*root, &expected_path)?;

    Ok(PartialLookup::Complete(current))
}

} // verus!
fn main() {}
