use vstd::prelude::*;
verus! {
#[verifier::external_body]
pub struct Error { _p: () }
#[verifier::external_body]
pub struct CString { _p: () }
impl CString {
    pub uninterp spec fn len(&self) -> nat;
    #[verifier::external_body]
    fn to_bytes_len(&self) -> (r: usize) ensures r == self.len() { unimplemented!() }
    #[verifier::external_body]
    fn as_ptr(&self) -> *const i8 { unimplemented!() }
}
pub uninterp spec fn cap(p: *mut i8) -> nat;   // bytes the C caller guarantees writable

#[verifier::external_body]
fn cstring_new(path: &[u8]) -> (r: CString) ensures r.len() == path@.len() { unimplemented!() }

#[verifier::external_body]
fn ptr_is_null(p: *mut i8) -> (r: bool) ensures r ==> cap(p) == 0 { unimplemented!() }

#[verifier::external_body]
fn copy_nonoverlapping(src: *const i8, src_len: Ghost<nat>, dst: *mut i8, n: usize)
    requires n <= src_len@, n <= cap(dst)
{ unimplemented!() }

fn min_usize(a: usize, b: usize) -> (r: usize) ensures r == if a <= b { a } else { b } { if a <= b { a } else { b } }

pub(crate) fn copy_path_into_buffer(
    path: &[u8],
    buf: *mut i8,
    bufsize: usize,
) -> (r: Result<i32, Error>)
    requires cap(buf) >= bufsize || ptr_null_spec(buf), path@.len() <= i32::MAX
    ensures r matches Ok(n) ==> n == path@.len()
{
    let path = cstring_new(path);
    let path_len = path.to_bytes_len();

    if !ptr_is_null(buf) && bufsize > 0 {
        {
            let to_copy = min_usize(path_len, bufsize);
            copy_nonoverlapping(path.as_ptr(), Ghost(path.len()), buf, to_copy);
        }
    }
    Ok(path_len as i32)
}
pub uninterp spec fn ptr_null_spec(p: *mut i8) -> bool;
} // verus!
fn main() {}
