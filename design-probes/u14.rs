use vstd::prelude::*;
verus! {

// ---------------- prelude ----------------
pub open spec fn no_slash(p: Seq<u8>) -> bool { forall|i: int| 0 <= i < p.len() ==> p[i] != 47u8 }
pub open spec fn single_component(p: Seq<u8>) -> bool { p.len() > 0 && no_slash(p) }
pub const O_NOFOLLOW: i32 = 0o400000;
pub const O_PATH: i32 = 0o10000000;
pub const O_DIRECTORY: i32 = 0o200000;
pub const O_CREAT: i32 = 0o100;
pub const O_EXCL: i32 = 0o200;
pub const O_TMPFILE: i32 = 0o20200000;
pub const ENOENT: i32 = 2;

#[derive(Clone, Copy, PartialEq, Eq)]
pub struct OpenFlags { pub bits: i32 }
impl OpenFlags {
    pub const O_NOFOLLOW: OpenFlags = OpenFlags { bits: O_NOFOLLOW };
    pub const O_PATH: OpenFlags = OpenFlags { bits: O_PATH };
    pub const O_DIRECTORY: OpenFlags = OpenFlags { bits: O_DIRECTORY };
    pub fn insert(&mut self, o: OpenFlags) ensures final(self).bits == old(self).bits | o.bits { self.bits = self.bits | o.bits; }
}
impl vstd::std_specs::ops::BitOrSpecImpl for OpenFlags {
    open spec fn obeys_bitor_spec() -> bool { true }
    open spec fn bitor_req(self, o: OpenFlags) -> bool { true }
    open spec fn bitor_spec(self, o: OpenFlags) -> OpenFlags { OpenFlags { bits: self.bits | o.bits } }
}
impl core::ops::BitOr for OpenFlags {
    type Output = OpenFlags;
    fn bitor(self, o: OpenFlags) -> (r: OpenFlags) { OpenFlags { bits: self.bits | o.bits } }
}
pub open spec fn creation_flags(bits: i32) -> bool { (bits & (O_CREAT | O_EXCL)) != 0 || (bits & O_TMPFILE) == O_TMPFILE }

#[verifier::external_body]
pub struct Fd { _p: () }
impl Fd {
    pub uninterp spec fn mnt(&self) -> Option<u64>;       // real mount id of the object (A5)
    pub uninterp spec fn fstype_proc(&self) -> bool;      // real f_type == PROC_SUPER_MAGIC
    pub uninterp spec fn kflags(&self) -> i32;
    pub uninterp spec fn via_follow(&self) -> bool;       // opened by openat_follow
}
#[verifier::external_body]
pub struct Error { _p: () }
impl Error { pub uninterp spec fn os_errno(&self) -> Option<i32>; pub uninterp spec fn is_invalid_arg(&self) -> bool; }
#[verifier::external_body]
fn err_is_enoent(e: &Error) -> (r: bool) ensures r == (e.os_errno() == Some(ENOENT)) { unimplemented!() }
#[verifier::external_body]
fn invalid_argument() -> (r: Error) ensures r.is_invalid_arg() { unimplemented!() }

#[derive(Clone, Copy)]
pub enum ProcfsBase { ProcRoot, ProcSelf, ProcThreadSelf }
pub enum ProcfsResolver { Openat2, RestrictedOpath }

pub struct ProcfsHandle {
    pub inner: Fd,
    pub mnt_id: Option<u64>,
    pub is_subset: bool,
    pub resolver: ProcfsResolver,
}

// contract of ProcfsResolver::resolve (proved in U13): lookup result is arbitrary, but creation flags are refused
impl ProcfsResolver {
    #[verifier::external_body]
    fn resolve(&self, root: &Fd, path: &[u8], oflags: OpenFlags, rflags: u64) -> (r: Result<Fd, Error>)
        ensures
            creation_flags(oflags.bits) ==> (r matches Err(e) && e.is_invalid_arg()),
            r matches Ok(fd) ==> fd.kflags() == oflags.bits && !fd.via_follow(),
    { unimplemented!() }
}

// contracts proved in this unit's sibling functions (verify_same_mnt, verify_is_procfs):
#[verifier::external_body]
fn verify_same_mnt(root_mnt_id: Option<u64>, dirfd: &Fd, path: &[u8]) -> (r: Result<(), Error>)
    ensures r is Ok ==> (path@.len() == 0 ==> dirfd.mnt() == root_mnt_id)
{ unimplemented!() }
#[verifier::external_body]
fn verify_is_procfs(fd: &Fd) -> (r: Result<(), Error>)
    ensures r is Ok ==> fd.fstype_proc()
{ unimplemented!() }
#[verifier::external_body]
fn fetch_mnt_id(dirfd: &Fd, path: &[u8]) -> (r: Result<Option<u64>, Error>)
    ensures r matches Ok(m) ==> (path@.len() == 0 ==> m == dirfd.mnt())
{ unimplemented!() }
#[verifier::external_body]
fn base_into_path(base: ProcfsBase, root: &Fd) -> (r: Vec<u8>) { unimplemented!() }
#[verifier::external_body]
fn new_unmasked() -> (r: Result<ProcfsHandle, Error>) { unimplemented!() }
#[verifier::external_body]
fn path_strip_trailing_slash(path: &[u8]) -> (r: (&[u8], bool)) { unimplemented!() }
#[verifier::external_body]
fn path_split<'a>(path: &'a [u8]) -> (r: Result<(&'a [u8], Option<&'a [u8]>), Error>)
    ensures r matches Ok((_, Some(b))) ==> single_component(b@)
{ unimplemented!() }
#[verifier::external_body]
fn syscalls_readlinkat_empty(fd: Fd) -> (r: Result<Vec<u8>, Error>) { unimplemented!() }

// the only legal follow-open: parent is a verified procfs directory, name is one component,
// and the link dentry itself was mount-checked against the parent's mount id
pub uninterp spec fn dentry_checked(parent: &Fd, name: Seq<u8>) -> bool;
#[verifier::external_body]
fn verify_same_mnt_dentry(mnt: Option<u64>, parent: &Fd, name: &[u8]) -> (r: Result<(), Error>)
    ensures r is Ok ==> (mnt == parent.mnt() ==> dentry_checked(parent, name@))
{ unimplemented!() }
#[verifier::external_body]
fn syscalls_openat_follow(dirfd: Fd, path: &[u8], flags: OpenFlags, mode: u32) -> (r: Result<Fd, Error>)
    requires
        single_component(path@),
        dirfd.fstype_proc(), dentry_checked(&dirfd, path@),
        !creation_flags(flags.bits),
    ensures r matches Ok(fd) ==> fd.via_follow()
{ unimplemented!() }

impl ProcfsHandle {
    fn verify_same_procfs_mnt(&self, fd: &Fd) -> (r: Result<(), Error>)
        ensures r is Ok ==> fd.mnt() == self.mnt_id && fd.fstype_proc()
    {
        verify_same_mnt(self.mnt_id, fd, &[])?;
        verify_is_procfs(fd)
    }

    fn open_base(&self, base: ProcfsBase) -> (r: Result<Fd, Error>)
        ensures r matches Ok(fd) ==> fd.mnt() == self.mnt_id && fd.fstype_proc()
    {
        let proc_rootfd = &self.inner;
        let fd = self.resolver.resolve(
            proc_rootfd,
            base_into_path(base, proc_rootfd).as_slice(),
            OpenFlags::O_PATH | OpenFlags::O_DIRECTORY,
            0,
        )?;
        self.verify_same_procfs_mnt(&fd)?;
        Ok(fd)
    }

    pub fn open(&self, base: ProcfsBase, subpath: &[u8], oflags: OpenFlags) -> (r: Result<Fd, Error>)
        ensures
            creation_flags(oflags.bits) ==> r is Err,
            r matches Ok(fd) ==> fd.fstype_proc() && !fd.via_follow() && (fd.kflags() & O_NOFOLLOW) == O_NOFOLLOW,
        decreases (if self.is_subset { 1nat } else { 0nat })
    {
        let mut oflags = oflags;
        // Force-set O_NOFOLLOW.
        oflags.insert(OpenFlags::O_NOFOLLOW);

        // Do a basic lookup.
        let basedir = self.open_base(base)?;
        let fd = match (match self
            .resolver
            .resolve(&basedir, subpath, oflags, 0)
            { Ok(fd) => {
                match self.verify_same_procfs_mnt(&fd) { Ok(()) => Ok(fd), Err(e) => Err(e) }
            }, Err(e) => Err(e) })
            { Ok(v) => Ok(v), Err(err) => {
                if self.is_subset && err_is_enoent(&err) {
                    match new_unmasked() {
                        Err(_) => Err(err),
                        Ok(h) => h.open(base, subpath, oflags),
                    }
                } else {
                    Err(err)
                }
            } }?;

        Ok(fd)
    }
}

} // verus!
fn main() {}
