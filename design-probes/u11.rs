use vstd::prelude::*;
verus! {

pub open spec fn no_slash(p: Seq<u8>) -> bool { forall|i: int| 0 <= i < p.len() ==> p[i] != 47u8 }
pub open spec fn is_dot(p: Seq<u8>) -> bool { p =~= seq![46u8] }
pub open spec fn is_dotdot(p: Seq<u8>) -> bool { p =~= seq![46u8, 46u8] }
pub open spec fn plain_component(p: Seq<u8>) -> bool { p.len() > 0 && no_slash(p) && !is_dot(p) && !is_dotdot(p) }
pub const O_NOFOLLOW: i32 = 0o400000;
pub const O_DIRECTORY: i32 = 0o200000;
pub const EEXIST: i32 = 17;
pub const ENOENT: i32 = 2;

pub mod lem {
    use vstd::prelude::*;
    pub broadcast proof fn lemma_or_contains_r(a: i32, b: i32) ensures #[trigger] ((a | b) & b) == b
    { assert(((a | b) & b) == b) by (bit_vector); }
    pub broadcast proof fn lemma_or_mono_l(a: i32, b: i32, f: i32)
        requires a & f == f
        ensures #[trigger] ((a | b) & f) == f
    { assert(a & f == f ==> ((a | b) & f) == f) by (bit_vector); }
    pub broadcast proof fn lemma_or_mono_r(a: i32, b: i32, f: i32)
        requires b & f == f
        ensures #[trigger] ((a | b) & f) == f
    { assert(b & f == f ==> ((a | b) & f) == f) by (bit_vector); }
    pub broadcast proof fn lemma_or_contains_l(a: i32, b: i32) ensures #[trigger] ((a | b) & a) == a
    { assert(((a | b) & a) == a) by (bit_vector); }
}
broadcast use {lem::lemma_or_contains_r, lem::lemma_or_contains_l, lem::lemma_or_mono_l, lem::lemma_or_mono_r};

#[derive(Clone, Copy, PartialEq, Eq)]
pub struct OpenFlags { pub bits: i32 }
impl OpenFlags {
    pub const O_NOFOLLOW: OpenFlags = OpenFlags { bits: O_NOFOLLOW };
    pub const O_DIRECTORY: OpenFlags = OpenFlags { bits: O_DIRECTORY };
}
impl vstd::std_specs::ops::BitOrSpecImpl for OpenFlags {
    open spec fn obeys_bitor_spec() -> bool { true }
    open spec fn bitor_req(self, o: OpenFlags) -> bool { true }
    open spec fn bitor_spec(self, o: OpenFlags) -> OpenFlags { OpenFlags { bits: self.bits | o.bits } }
}
impl core::ops::BitOr for OpenFlags {
    type Output = OpenFlags;
    fn bitor(self, o: OpenFlags) -> (r: OpenFlags) { OpenFlags { bits: self.bits | o.bits } }
}

#[verifier::external_body]
pub struct Fd { _p: () }
impl Fd {
    pub uninterp spec fn lineage(&self) -> bool;
    pub uninterp spec fn kflags(&self) -> i32;
}
#[verifier::external_body]
pub struct Error { _p: () }
impl Error { pub uninterp spec fn os_errno(&self) -> Option<i32>; pub uninterp spec fn is_invalid_arg(&self) -> bool; pub uninterp spec fn is_safety(&self) -> bool; }
#[verifier::external_body]
pub struct SysError { _p: () }
impl SysError { pub uninterp spec fn errno(&self) -> i32; }
#[verifier::external_body]
fn sys_errno_is(e: &SysError, x: i32) -> (r: bool) ensures r == (e.errno() == x) { unimplemented!() }
#[verifier::external_body]
fn os_error(errno: i32) -> (r: Error) ensures r.os_errno() == Some(errno) { unimplemented!() }
#[verifier::external_body]
fn raw_os_error(e: SysError) -> (r: Error) ensures r.os_errno() == Some(e.errno()) { unimplemented!() }
#[verifier::external_body]
fn invalid_argument() -> (r: Error) ensures r.is_invalid_arg() { unimplemented!() }
#[verifier::external_body]
fn safety_violation() -> (r: Error) ensures r.is_safety() { unimplemented!() }

pub struct Permissions { pub m: u32 }
impl Permissions { pub fn mode(&self) -> (r: u32) ensures r == self.m { self.m } }
pub struct OsString { pub b: Vec<u8> }
impl OsString {
    #[verifier::external_body]
    pub fn contains_byte(&self, c: u8) -> (r: bool) ensures r == !(forall|i: int| 0 <= i < self.b@.len() ==> self.b@[i] != c) { unimplemented!() }
}
#[verifier::external_body]
pub struct PathBuf { _p: () }
pub struct Handle { pub inner: Fd }
impl Handle {
    pub fn from_fd(fd: Fd) -> (r: Handle) ensures r.inner == fd { Handle { inner: fd } }
    // contract of Handle::reopen (proved in U15): same object, hence lineage carries over
    #[verifier::external_body]
    pub fn reopen(&self, flags: OpenFlags) -> (r: Result<Fd, Error>)
        ensures r matches Ok(fd) ==> (self.inner.lineage() ==> fd.lineage()) && fd.kflags() & flags.bits == flags.bits
    { unimplemented!() }
}

// rigid ghost constant tying the caller's argument to the callee's precondition
pub uninterp spec fn requested_mode() -> u32;

#[verifier::external_body]
fn syscalls_mkdirat(dirfd: &Fd, path: &OsString, mode: u32) -> (r: Result<(), SysError>)
    requires
        dirfd.lineage(),                    // [C03.mkdirat.dir_lineage]
        plain_component(path.b@),           // [C05.mkdirat.single_plain_component]
        mode == requested_mode(),           // [C12.mkdirat.requested_mode]
        mode & !0o1777u32 == 0,             // [C12.mkdirat.mode_bits]
{ unimplemented!() }
#[verifier::external_body]
fn syscalls_openat(dirfd: &Fd, path: &OsString, flags: OpenFlags, mode: u32) -> (r: Result<Fd, SysError>)
    requires dirfd.lineage(), path.b@.len() > 0, no_slash(path.b@)
    ensures r matches Ok(fd) ==> (!is_dotdot(path.b@) ==> fd.lineage()) && fd.kflags() == (flags.bits | O_NOFOLLOW)
{ unimplemented!() }

// contract of Resolver::resolve_partial + TryInto<(Handle, Option<PathBuf>)> (U06/U08/U09)
#[verifier::external_body]
fn resolve_partial_into(root: &Fd, path: &[u8]) -> (r: Result<(Handle, Option<PathBuf>), Error>)
    requires root.lineage()
    ensures r matches Ok((h, _)) ==> h.inner.lineage()
{ unimplemented!() }

// R6 helper for `remaining.iter().flat_map(raw_components).map(to_os_string).filter(!empty && != ".").collect()`
#[verifier::external_body]
fn collect_nonempty_parts(remaining: &Option<PathBuf>) -> (r: Vec<OsString>)
    ensures forall|i: int| 0 <= i < r@.len() ==> (#[trigger] r@[i]).b@.len() > 0 && no_slash(r@[i].b@) && !is_dot(r@[i].b@)
{ unimplemented!() }
fn is_dotdot_exec(s: &OsString) -> (r: bool) ensures r == is_dotdot(s.b@) { s.b.len() == 2 && s.b[0] == 46 && s.b[1] == 46 }
fn any_dotdot(v: &Vec<OsString>) -> (r: bool)
    ensures r == (exists|i: int| 0 <= i < v@.len() && is_dotdot(#[trigger] v@[i].b@))
{
    let mut i: usize = 0;
    while i < v.len()
        invariant i <= v.len(), forall|j: int| 0 <= j < i ==> !is_dotdot(#[trigger] v@[j].b@)
        decreases v.len() - i
    {
        if is_dotdot_exec(&v[i]) { return true; }
        i += 1;
    }
    false
}

// ---------------- extracted: RootRef::mkdir_all (rules by hand) ----------------
pub fn mkdir_all(root: &Fd, path: &[u8], perm: &Permissions) -> (res: Result<Handle, Error>)
    requires root.lineage(), perm.m == requested_mode()
    ensures
        perm.m & !0o1777u32 != 0 ==> (res matches Err(e) && e.is_invalid_arg()),   // [C12.mkdir_all.mode_validated]
        res matches Ok(h) ==> h.inner.lineage() && (h.inner.kflags() & O_DIRECTORY) == O_DIRECTORY,  // [C12.mkdir_all.result_is_dir_handle]
{
    if perm.mode() & !0o7777 != 0 {
        proof { let m = perm.m; assert(m & !0o7777u32 != 0 ==> m & !0o1777u32 != 0) by (bit_vector); }
        return Err(invalid_argument());
    }
    if perm.mode() & !0o1777 != 0 {
        return Err(invalid_argument());
    }

    let (handle, remaining) = resolve_partial_into(root, path)?;

    let mut current = handle.reopen(OpenFlags::O_DIRECTORY)?;

    let remaining_parts = collect_nonempty_parts(&remaining);

    if any_dotdot(&remaining_parts) {
        return Err(os_error(ENOENT));
    }

    let mut __idx: usize = 0;
    while __idx < remaining_parts.len()
        invariant
            current.lineage(), __idx <= remaining_parts@.len(),
            forall|i: int| 0 <= i < remaining_parts@.len() ==> (#[trigger] remaining_parts@[i]).b@.len() > 0 && no_slash(remaining_parts@[i].b@) && !is_dot(remaining_parts@[i].b@) && !is_dotdot(remaining_parts@[i].b@),
            (current.kflags() & O_DIRECTORY) == O_DIRECTORY, perm.m == requested_mode(),
            perm.m & !0o1777u32 == 0,
        decreases remaining_parts@.len() - __idx
    {
        let part = &remaining_parts[__idx];
        __idx += 1;
        if part.contains_byte(b'/') {
            return Err(safety_violation());
        }

        if let Err(err) = syscalls_mkdirat(&current, part, perm.mode()) {
            if !sys_errno_is(&err, EEXIST) {
                return Err(raw_os_error(err));
            }
        }

        let next = match syscalls_openat(
            &current,
            part,
            OpenFlags::O_NOFOLLOW | OpenFlags::O_DIRECTORY,
            0,
        ) { Ok(v) => v, Err(err) => return Err(raw_os_error(err)) };

        current = next;
    }

    Ok(Handle::from_fd(current))
}

} // verus!
fn main() {}
