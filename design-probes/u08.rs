use vstd::prelude::*;
verus! {
pub const RESOLVE_NO_MAGICLINKS: u64 = 0x02;
pub const RESOLVE_NO_SYMLINKS: u64 = 0x04;
pub const RESOLVE_IN_ROOT: u64 = 0x10;
pub const O_PATH: i32 = 0o10000000;
pub const O_NOFOLLOW: i32 = 0o400000;
pub const ENOSYS: i32 = 38;
pub const EAGAIN: i32 = 11;

#[derive(Clone, Copy, PartialEq, Eq)]
pub struct OpenFlags { pub bits: i32 }
impl OpenFlags {
    pub const O_PATH: OpenFlags = OpenFlags { bits: O_PATH };
    pub const O_NOFOLLOW: OpenFlags = OpenFlags { bits: O_NOFOLLOW };
    pub fn insert(&mut self, o: OpenFlags) ensures final(self).bits == old(self).bits | o.bits { self.bits = self.bits | o.bits; }
    pub fn bits(&self) -> (r: i32) ensures r == self.bits { self.bits }
}
#[derive(Clone, Copy)]
pub struct ResolverFlags { pub bits: u64 }
impl ResolverFlags { pub fn bits(&self) -> (r: u64) ensures r == self.bits { self.bits } }

pub struct OpenHow { pub flags: u64, pub mode: u64, pub resolve: u64 }

#[verifier::external_body]
pub struct Fd { _p: () }
impl Fd {
    pub uninterp spec fn lineage(&self) -> bool;
    pub uninterp spec fn witnessed(&self) -> bool;
    pub uninterp spec fn from_openat2(&self) -> bool;
}
#[verifier::external_body]
pub struct SysError { _p: () }
impl SysError { pub uninterp spec fn errno(&self) -> i32; }
#[verifier::external_body]
fn sys_errno(e: &SysError) -> (r: Option<i32>) ensures r == Some(e.errno()) { unimplemented!() }
#[verifier::external_body]
pub struct Error { _p: () }
impl Error {
    pub uninterp spec fn is_safety(&self) -> bool;
    pub uninterp spec fn is_not_supported(&self) -> bool;
    pub uninterp spec fn os_errno(&self) -> Option<i32>;
}
pub enum ErrorImpl { NotSupported, SafetyViolation, RawOsError { source: SysError } }
#[verifier::external_body]
fn error_from(e: ErrorImpl) -> (r: Error)
    ensures
        e is SafetyViolation ==> r.is_safety() && r.os_errno() is None,
        e is NotSupported ==> r.is_not_supported() && !r.is_safety(),
        e matches ErrorImpl::RawOsError { source } ==> r.os_errno() == Some(source.errno()) && (r.is_safety() <==> source.errno() == 18),
{ unimplemented!() }
pub struct Handle { pub inner: Fd }
impl Handle { pub fn from_fd(fd: Fd) -> (r: Handle) ensures r.inner == fd { Handle { inner: fd } } }

pub uninterp spec fn openat2_supported() -> bool;
#[verifier::external_body]
fn openat2_is_supported() -> (r: bool) ensures r == openat2_supported() { unimplemented!() }

pub uninterp spec fn calls() -> nat;   // placeholder: call counting is done with a ghost counter below

#[verifier::external_body]
fn syscalls_openat2(root: &Fd, path: &[u8], how: &OpenHow, Ghost(cnt): Ghost<&mut nat>) -> (r: Result<Fd, SysError>)
    requires
        how.resolve & (RESOLVE_IN_ROOT | RESOLVE_NO_MAGICLINKS) == (RESOLVE_IN_ROOT | RESOLVE_NO_MAGICLINKS),
        how.mode == 0,
    ensures
        r matches Ok(fd) ==> fd.lineage() && fd.witnessed() && fd.from_openat2(),
{ unimplemented!() }

pub(crate) fn resolve(
    root: &Fd,
    path: &[u8],
    rflags: ResolverFlags,
    no_follow_trailing: bool,
) -> (r: Result<Handle, Error>)
    ensures
        r matches Ok(h) ==> h.inner.lineage() && h.inner.witnessed() && h.inner.from_openat2(),
        !openat2_supported() ==> (r matches Err(e) && e.is_not_supported()),
{
    if !openat2_is_supported() {
        return Err(error_from(ErrorImpl::NotSupported));
    }

    let mut oflags = OpenFlags::O_PATH;
    if no_follow_trailing {
        oflags.insert(OpenFlags::O_NOFOLLOW);
    }
    let rflags = RESOLVE_IN_ROOT | RESOLVE_NO_MAGICLINKS | rflags.bits();

    let how = OpenHow {
        flags: oflags.bits() as u64,
        resolve: rflags,
        mode: 0,
    };
    proof {
        let x = rflags;
        assert(x & (0x10u64 | 0x02u64) == (0x10u64 | 0x02u64)) by (bit_vector)
            requires exists|y: u64| x == 0x10u64 | 0x02u64 | y;
    }

    let mut __i: usize = 0;
    let ghost mut ncalls: nat = 0;
    while __i < 16
        invariant how.resolve & (RESOLVE_IN_ROOT | RESOLVE_NO_MAGICLINKS) == (RESOLVE_IN_ROOT | RESOLVE_NO_MAGICLINKS), how.mode == 0, __i <= 16, ncalls == __i,
        decreases 16 - __i
    {
        __i = __i + 1;
        proof { ncalls = ncalls + 1; }
        match syscalls_openat2(root, path, &how, Ghost(&mut 0nat)) {
            Ok(file) => return Ok(Handle::from_fd(file)),
            Err(err) => match sys_errno(&err) {
                Some(ENOSYS) => {
                    return Err(error_from(ErrorImpl::NotSupported));
                }
                Some(EAGAIN) => continue,
                _ => return Err(error_from(ErrorImpl::RawOsError { source: err })),
            },
        }
    }

    Err(error_from(ErrorImpl::SafetyViolation))
}
} // verus!
fn main() {}
