use vstd::prelude::*;
verus! {

#[verifier::external_body]
pub struct Error { _p: () }
impl Error { pub uninterp spec fn is_invalid_arg(&self) -> bool; }
#[verifier::external_body]
fn invalid_argument() -> (r: Error) ensures r.is_invalid_arg() { unimplemented!() }

// BorrowedFd model: carries the raw value and a ghost "validated" flag
pub struct BorrowedFd { pub raw: i32, pub validated: Ghost<bool> }
#[derive(Clone, Copy)]
pub struct CBorrowedFd { pub inner: i32 }

impl CBorrowedFd {
    // extracted: try_as_borrowed_fd (R10; `unsafe { BorrowedFd::borrow_raw(x) }` → borrow_raw(x) with requires x >= 0)
    pub(crate) fn try_as_borrowed_fd(&self) -> (r: Result<BorrowedFd, Error>)
        ensures
            self.inner < 0 ==> (r matches Err(e) && e.is_invalid_arg()),          // [C17.try_as_borrowed_fd.negative_rejected]
            r matches Ok(fd) ==> fd.raw == self.inner && fd.raw >= 0 && fd.validated@,
    {
        if self.inner < 0 {     // is_negative()
            Err(invalid_argument())
        } else {
            Ok(borrow_raw(self.inner))
        }
    }
}
fn borrow_raw(x: i32) -> (r: BorrowedFd)
    requires x >= 0                                                            // [C17.borrow_raw.nonnegative]
    ensures r.raw == x, r.validated@
{ BorrowedFd { raw: x, validated: Ghost(true) } }

pub uninterp spec fn ptr_is_null_spec(p: *const i8) -> bool;
#[verifier::external_body]
fn ptr_is_null(p: *const i8) -> (r: bool) ensures r == ptr_is_null_spec(p) { unimplemented!() }
#[verifier::external_body]
pub struct PathRef { _p: () }
impl PathRef { pub uninterp spec fn from_ptr(&self) -> *const i8; }
#[verifier::external_body]
fn cstr_from_ptr(p: *const i8) -> (r: PathRef)
    requires !ptr_is_null_spec(p)                                              // [C17.cstr_from_ptr.nonnull]
    ensures r.from_ptr() == p
{ unimplemented!() }

// extracted: parse_path
pub(crate) fn parse_path(path: *const i8) -> (r: Result<PathRef, Error>)
    ensures
        ptr_is_null_spec(path) ==> (r matches Err(e) && e.is_invalid_arg()),       // [C17.parse_path.null_rejected]
        r matches Ok(p) ==> p.from_ptr() == path,
{
    if ptr_is_null(path) {
        return Err(invalid_argument());
    }
    Ok(cstr_from_ptr(path))
}

pub struct RootRef { pub inner: BorrowedFd }
impl RootRef {
    pub fn from_fd(inner: BorrowedFd) -> (r: RootRef)
        requires inner.validated@                                               // [C17.rootref.validated_fd]
        ensures r.inner == inner
    { RootRef { inner } }
    #[verifier::external_body]
    pub fn resolve(&self, path: PathRef) -> (r: Result<Handle, Error>) { unimplemented!() }
}
#[verifier::external_body]
pub struct Handle { _p: () }
pub uninterp spec fn is_error_id(x: i32) -> bool;
#[verifier::external_body]
fn into_c_return(r: Result<Handle, Error>) -> (c: i32)
    ensures r is Err ==> c <= -4096
{ unimplemented!() }

// extracted: pathrs_inroot_resolve with R17 (immediately-invoked closure hoisted to a function)
fn __pathrs_inroot_resolve_body(root_fd: CBorrowedFd, path: *const i8) -> (r: Result<Handle, Error>)
    ensures (root_fd.inner < 0 || ptr_is_null_spec(path)) ==> r is Err
{
    let root_fd = root_fd.try_as_borrowed_fd()?;
    let root = RootRef::from_fd(root_fd);
    let path = parse_path(path)?;
    root.resolve(path)
}
pub fn pathrs_inroot_resolve(root_fd: CBorrowedFd, path: *const i8) -> (c: i32)
    ensures (root_fd.inner < 0 || ptr_is_null_spec(path)) ==> c <= -4096       // [C17.pathrs_inroot_resolve.invalid_args_give_error_id]
{
    into_c_return(__pathrs_inroot_resolve_body(root_fd, path))
}

} // verus!
fn main() {}
