#![feature(allocator_api)]
use vstd::prelude::*;
use std::collections::VecDeque;
verus! {

pub open spec fn no_slash(p: Seq<u8>) -> bool { forall|i: int| 0 <= i < p.len() ==> p[i] != 47u8 }
pub open spec fn is_dotdot(p: Seq<u8>) -> bool { p =~= seq![46u8, 46u8] }
pub const O_NOFOLLOW: i32 = 0o400000;
pub const O_PATH: i32 = 0o10000000;
pub const O_DIRECTORY: i32 = 0o200000;
pub const O_CREAT: i32 = 0o100;
pub const O_EXCL: i32 = 0o200;
pub const O_TMPFILE: i32 = 0o20200000;
pub const EXDEV: i32 = 18;
pub const ELOOP: i32 = 40;
pub const ENOTDIR: i32 = 20;

#[derive(Clone, Copy, PartialEq, Eq)]
pub struct OpenFlags { pub bits: i32 }
impl OpenFlags {
    pub const O_NOFOLLOW: OpenFlags = OpenFlags { bits: O_NOFOLLOW };
    pub const O_PATH: OpenFlags = OpenFlags { bits: O_PATH };
    pub const O_DIRECTORY: OpenFlags = OpenFlags { bits: O_DIRECTORY };
    pub fn contains(&self, o: OpenFlags) -> (r: bool) ensures r == (self.bits & o.bits == o.bits) { self.bits & o.bits == o.bits }
    pub fn intersection(&self, o: OpenFlags) -> (r: OpenFlags) ensures r.bits == self.bits & o.bits { OpenFlags { bits: self.bits & o.bits } }
}
impl vstd::std_specs::ops::BitOrSpecImpl for OpenFlags {
    open spec fn obeys_bitor_spec() -> bool { true }
    open spec fn bitor_req(self, o: OpenFlags) -> bool { true }
    open spec fn bitor_spec(self, o: OpenFlags) -> OpenFlags { OpenFlags { bits: self.bits | o.bits } }
}
impl core::ops::BitOr for OpenFlags {
    type Output = OpenFlags;
    fn bitor(self, o: OpenFlags) -> (r: OpenFlags) { OpenFlags { bits: self.bits | o.bits } }
}
pub mod lem {
    use vstd::prelude::*;
    pub broadcast proof fn lemma_or_contains_r(a: i32, b: i32)
        ensures #[trigger] ((a | b) & b) == b
    { assert(((a | b) & b) == b) by (bit_vector); }
    pub broadcast proof fn lemma_or_contains_l(a: i32, b: i32)
        ensures #[trigger] ((a | b) & a) == a
    { assert(((a | b) & a) == a) by (bit_vector); }
}

#[derive(Clone, Copy)]
pub struct ResolverFlags { pub bits: u64 }
impl ResolverFlags {
    pub const NO_SYMLINKS: ResolverFlags = ResolverFlags { bits: 0x04 };
    pub fn contains(&self, o: ResolverFlags) -> (r: bool) ensures r == (self.bits & o.bits == o.bits) { self.bits & o.bits == o.bits }
}

#[verifier::external_body]
pub struct Fd { _p: () }
impl Fd {
    pub uninterp spec fn mnt(&self) -> Option<u64>;
    pub uninterp spec fn kflags(&self) -> i32;
}
#[verifier::external_body]
pub struct Error { _p: () }
impl Error { pub uninterp spec fn os_errno(&self) -> Option<i32>; }
#[verifier::external_body]
pub struct SysError { _p: () }
impl SysError { pub uninterp spec fn errno(&self) -> i32; }
#[verifier::external_body]
fn sys_errno(e: &SysError) -> (r: Option<i32>) ensures r == Some(e.errno()) { unimplemented!() }
#[verifier::external_body]
fn os_error(errno: i32) -> (r: Error) ensures r.os_errno() == Some(errno) { unimplemented!() }
#[verifier::external_body]
fn raw_os_error(e: SysError) -> (r: Error) ensures r.os_errno() == Some(e.errno()) { unimplemented!() }
#[verifier::external_body]
pub struct Metadata { _p: () }
impl Metadata {
    pub uninterp spec fn symlink(&self) -> bool;
    #[verifier::external_body]
    pub fn is_symlink(&self) -> (r: bool) ensures r == self.symlink() { unimplemented!() }
}
pub struct OsString { pub b: Vec<u8> }
impl OsString {
    #[verifier::external_body]
    pub fn eq_lit(&self, lit: &[u8]) -> (r: bool) ensures r == (self.b@ =~= lit@) { unimplemented!() }
    #[verifier::external_body]
    pub fn from_lit(lit: &[u8]) -> (r: OsString) ensures r.b@ == lit@ { unimplemented!() }
    pub fn is_empty(&self) -> (r: bool) ensures r == (self.b@.len() == 0) { self.b.len() == 0 }
}
#[verifier::external_body]
pub struct PathBuf { _p: () }
impl PathBuf {
    #[verifier::external_body]
    pub fn is_absolute(&self) -> bool { unimplemented!() }
}

#[verifier::external_body]
fn fetch_mnt_id(dirfd: &Fd) -> (r: Result<Option<u64>, Error>)
    ensures r matches Ok(m) ==> m == dirfd.mnt()
{ unimplemented!() }
#[verifier::external_body]
fn verify_same_mnt(root_mnt_id: Option<u64>, dirfd: &Fd) -> (r: Result<(), Error>)
    ensures r is Ok ==> dirfd.mnt() == root_mnt_id
{ unimplemented!() }
#[verifier::external_body]
fn try_clone_to_owned(root: &Fd) -> (r: Result<Fd, Error>)
    ensures r matches Ok(fd) ==> fd.mnt() == root.mnt()
{ unimplemented!() }
#[verifier::external_body]
fn syscalls_openat(dirfd: &Fd, path: &OsString, flags: OpenFlags, mode: u32) -> (r: Result<Fd, SysError>)
    requires
        path.b@.len() > 0, no_slash(path.b@), !is_dotdot(path.b@),
        flags.bits & O_NOFOLLOW == O_NOFOLLOW,
    ensures r matches Ok(fd) ==> fd.kflags() == flags.bits
{ unimplemented!() }
#[verifier::external_body]
fn syscalls_readlinkat_empty(fd: &Fd) -> (r: Result<PathBuf, SysError>) { unimplemented!() }
#[verifier::external_body]
fn fd_metadata(fd: &Fd) -> (r: Result<Metadata, Error>) { unimplemented!() }
#[verifier::external_body]
pub fn collect_components(path: &[u8]) -> (r: VecDeque<OsString>)
    ensures forall|i: int| 0 <= i < r@.len() ==> no_slash(#[trigger] r@[i].b@)
{ unimplemented!() }
#[verifier::external_body]
pub fn prepend_components(target: &PathBuf, deque: &mut VecDeque<OsString>)
    ensures
        (forall|i: int| 0 <= i < old(deque)@.len() ==> no_slash(#[trigger] old(deque)@[i].b@)) ==>
            (forall|i: int| 0 <= i < final(deque)@.len() ==> no_slash(#[trigger] final(deque)@[i].b@)),
{ unimplemented!() }
pub assume_specification<T, A: std::alloc::Allocator> [std::collections::VecDeque::<T, A>::is_empty] (q: &std::collections::VecDeque<T, A>) -> (r: bool)
    ensures r == (q@.len() == 0);
pub const MAX_SYMLINK_TRAVERSALS: usize = 128;

broadcast use {lem::lemma_or_contains_r, lem::lemma_or_contains_l};
// ---------------- extracted: opath_resolve (rules applied by hand) ----------------
fn opath_resolve(
    root: &Fd,
    path: &[u8],
    oflags: OpenFlags,
    rflags: ResolverFlags,
) -> (res: Result<Fd, Error>)
    ensures
        res matches Ok(fd) ==> fd.mnt() == root.mnt(),          // [C06.opath_resolve.same_mnt]
{
    let root_mnt_id = fetch_mnt_id(root)?;

    let mut current = try_clone_to_owned(root)?;

    let mut remaining_components = collect_components(path);

    let mut symlink_traversals: usize = 0;
    loop
        invariant
            current.mnt() == root.mnt(), root_mnt_id == root.mnt(),
            forall|i: int| 0 <= i < remaining_components@.len() ==> no_slash(#[trigger] remaining_components@[i].b@),
            symlink_traversals < MAX_SYMLINK_TRAVERSALS,
        decreases MAX_SYMLINK_TRAVERSALS - symlink_traversals, remaining_components@.len()
    {
        let part = match remaining_components.pop_front() { Some(p) => p, None => break };
        let part = if part.is_empty() { OsString::from_lit(&[46u8]) } else { part };

        if part.eq_lit(&[46u8, 46u8]) {
            return Err(os_error(EXDEV));
        }

        // Get our next element.
        let next = match syscalls_openat(
            &current,
            &part,
            OpenFlags::O_PATH | OpenFlags::O_NOFOLLOW,
            0,
        ) { Ok(v) => v, Err(err) => return Err(raw_os_error(err)) };

        verify_same_mnt(root_mnt_id, &next)?;

        let next_meta = fd_metadata(&next)?;

        if remaining_components.is_empty()
            && oflags.intersection(OpenFlags::O_PATH | OpenFlags::O_NOFOLLOW | OpenFlags::O_DIRECTORY) != OpenFlags::O_PATH
        {
            match syscalls_openat(&current, &part, oflags | OpenFlags::O_NOFOLLOW, 0) {
                Ok(final_reopen) => {
                    verify_same_mnt(root_mnt_id, &final_reopen)?;
                    return Ok(final_reopen);
                }
                Err(err) => {
                    if oflags.contains(OpenFlags::O_NOFOLLOW)
                        || !oflags.contains(OpenFlags::O_DIRECTORY)
                        || sys_errno(&err) != Some(ENOTDIR)
                        || !next_meta.is_symlink()
                    {
                        return Err(raw_os_error(err));
                    }
                }
            }
        }

        if !next_meta.is_symlink() {
            current = next;
            continue;
        }

        if rflags.contains(ResolverFlags::NO_SYMLINKS) {
            return Err(os_error(ELOOP));
        }

        symlink_traversals += 1;
        if symlink_traversals >= MAX_SYMLINK_TRAVERSALS {
            return Err(os_error(ELOOP));
        }

        let link_target = match syscalls_readlinkat_empty(&next) { Ok(v) => v, Err(err) => return Err(raw_os_error(err)) };

        if link_target.is_absolute() {
            return Err(os_error(ELOOP));
        }

        prepend_components(&link_target, &mut remaining_components);
    }

    Ok(current)
}

} // verus!
fn main() {}
