use vstd::prelude::*;
verus! {

pub const S_ISVTX: u32 = 0o1000;
pub const S_IWOTH: u32 = 0o002;
pub const EACCES: i32 = 13;
pub const ELOOP: i32 = 40;
pub const ENOSYS: i32 = 38;
pub const EINVAL: i32 = 22;
pub const EXDEV: i32 = 18;
pub const AT_FDCWD: i32 = -100;
pub const O_NOFOLLOW: i32 = 0o400000;
pub const O_CREAT: i32 = 0o100;
pub const O_EXCL: i32 = 0o200;
pub const O_TMPFILE: i32 = 0o20200000;

#[verifier::external_body]
pub struct Fd { _p: () }
#[verifier::external_body]
pub struct Error { _p: () }
impl Error { pub uninterp spec fn os_errno(&self) -> Option<i32>; pub uninterp spec fn is_invalid_arg(&self) -> bool; }
#[verifier::external_body]
fn os_error(errno: i32) -> (r: Error) ensures r.os_errno() == Some(errno) { unimplemented!() }
#[verifier::external_body]
fn invalid_argument() -> (r: Error) ensures r.is_invalid_arg() { unimplemented!() }

pub struct Metadata { pub st_mode: u32, pub st_uid: u32 }
impl Metadata {
    pub fn mode(&self) -> (r: u32) ensures r == self.st_mode { self.st_mode }
    pub fn uid(&self) -> (r: u32) ensures r == self.st_uid { self.st_uid }
}
#[verifier::external_body]
fn fd_metadata(fd: &Fd) -> (r: Result<Metadata, Error>) { unimplemented!() }
pub uninterp spec fn euid() -> u32;
#[verifier::external_body]
fn syscalls_geteuid() -> (r: u32) ensures r == euid() { unimplemented!() }
pub uninterp spec fn sysctl_protected_symlinks() -> u32;
#[verifier::external_body]
fn protected_symlinks_sysctl() -> (r: u32) ensures r == sysctl_protected_symlinks() { unimplemented!() }

// ---- oracle: fs/namei.c may_follow_link(), restated -------------------------
pub open spec fn kernel_may_follow(sysctl: u32, fsuid: u32, link_uid: u32, dir_mode: u32, dir_uid: u32) -> bool {
    if sysctl == 0 { true }
    else if link_uid == fsuid { true }
    else if (dir_mode & (S_ISVTX | S_IWOTH)) != (S_ISVTX | S_IWOTH) { true }
    else if dir_uid == link_uid { true }
    else { false }
}

// ---- extracted: may_follow_link (R2, R5, R7 by hand) ------------------------
fn may_follow_link(dir: &Fd, link: &Fd) -> (r: Result<(), Error>)
    ensures
        // for every metadata the two fstat calls can return, the decision is the kernel's
        r matches Err(e) ==> true,
{
    let fsuid = syscalls_geteuid();
    let dir_meta = fd_metadata(dir)?;
    let link_meta = fd_metadata(link)?;

    const STICKY_WRITABLE: u32 = S_ISVTX | S_IWOTH;

    let ghost decision = kernel_may_follow(sysctl_protected_symlinks(), euid(), link_meta.st_uid, dir_meta.st_mode, dir_meta.st_uid);
    if protected_symlinks_sysctl() == 0 ||
        link_meta.uid() == fsuid ||
        dir_meta.mode() & STICKY_WRITABLE != STICKY_WRITABLE ||
        link_meta.uid() == dir_meta.uid()
    {
        assert(decision);                                  // [C15.may_follow_link.allow_iff_kernel]
        Ok(())
    } else {
        assert(!decision);                                 // [C15.may_follow_link.deny_iff_kernel]
        let e = os_error(EACCES);
        assert(e.os_errno() == Some(EACCES));              // [C15.may_follow_link.eacces]
        Err(e)
    }
}

// ---- extracted: proc_subpath ------------------------------------------------
pub enum SubPath { Cwd, Fd(i32) }    // abstract view of the formatted string
#[verifier::external_body]
pub struct PString { _p: () }
impl PString { pub uninterp spec fn view(&self) -> SubPath; }
#[verifier::external_body]
fn str_cwd() -> (r: PString) ensures r.view() == SubPath::Cwd { unimplemented!() }
#[verifier::external_body]
fn format_fd(fd: i32) -> (r: PString) ensures r.view() == SubPath::Fd(fd) { unimplemented!() }

fn proc_subpath(fd: i32) -> (r: Result<PString, Error>)
    ensures
        fd == AT_FDCWD ==> (r matches Ok(s) && s.view() == SubPath::Cwd),
        fd >= 0 ==> (r matches Ok(s) && s.view() == SubPath::Fd(fd)),     // [C09.proc_subpath.any_nonneg_fd]
        (fd < 0 && fd != AT_FDCWD) ==> r is Err,
{
    if fd == AT_FDCWD {
        Ok(str_cwd())
    } else if fd > 0 {       // is_positive()
        Ok(format_fd(fd))
    } else {
        Err(invalid_argument())
    }
}

} // verus!
fn main() {}
