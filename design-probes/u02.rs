use vstd::prelude::*;
use vstd::slice::*;
verus! {

// ---------------- prelude bits ----------------
pub open spec fn no_slash(p: Seq<u8>) -> bool { forall|i: int| 0 <= i < p.len() ==> p[i] != 47u8 }

#[verifier::external_body]
fn memrchr(n: u8, h: &[u8]) -> (r: Option<usize>)
    ensures
        match r {
            Some(i) => i < h@.len() && h@[i as int] == n && forall|j: int| i < j < h@.len() ==> h@[j] != n,
            None => forall|j: int| 0 <= j < h@.len() ==> h@[j] != n,
        }
{ unimplemented!() }

fn bytes_eq(a: &[u8], b: &[u8]) -> (r: bool)
    ensures r == (a@ =~= b@)
{
    if a.len() != b.len() { return false; }
    let mut i: usize = 0;
    while i < a.len()
        invariant i <= a.len(), a.len() == b.len(), forall|j: int| 0 <= j < i ==> a@[j] == b@[j],
        decreases a.len() - i
    {
        if a[i] != b[i] { return false; }
        i += 1;
    }
    true
}

#[verifier::external_body]
pub struct Error { _p: () }
pub enum ErrorImpl { SafetyViolation { description: u8 } }
#[verifier::external_body]
fn error_from(e: ErrorImpl) -> Error { unimplemented!() }

// split_at on slices
fn split_at<'a>(s: &'a [u8], mid: usize) -> (r: (&'a [u8], &'a [u8]))
    requires mid <= s@.len()
    ensures r.0@ == s@.subrange(0, mid as int), r.1@ == s@.subrange(mid as int, s@.len() as int)
{
    (slice_subrange(s, 0, mid), slice_subrange(s, mid, s.len()))
}

// ---------------- extracted (R1,R3,R4 applied by hand) ----------------
enum AncestorsIterState {
    Start,
    Middle(usize),
    End,
}

pub(crate) struct Ancestors<'p> {
    state: AncestorsIterState,
    inner: &'p [u8],
}

pub open spec fn split_ok(path: Seq<u8>, dir: Seq<u8>, base: Option<Seq<u8>>) -> bool {
    match base {
        Some(b) => no_slash(b) && (
            (dir =~= seq![46u8] && path =~= b && b.len() > 0)
            || (path =~= dir + seq![47u8] + b && dir.len() > 0)
            || (dir =~= seq![47u8] && path =~= seq![47u8] + b)
        ),
        None => path.len() == 0 || path[path.len() - 1] == 47u8,
    }
}

impl<'p> Ancestors<'p> {
    spec fn wf(&self) -> bool {
        match self.state {
            AncestorsIterState::Middle(idx) => idx <= self.inner@.len(),
            _ => true,
        }
    }

    fn next(&mut self) -> (r: Option<(&'p [u8], Option<&'p [u8]>)>)
        requires old(self).wf()
        ensures
            final(self).wf(),
            final(self).inner@ == old(self).inner@,
            old(self).state is Start ==> (r matches Some((dir, base)) && split_ok(old(self).inner@, dir@, match base { Some(b) => Some(b@), None => None })),
    {
        let inner_bytes = self.inner;
        // Search for "/" in the remaining path.
        let found_idx = match self.state {
            AncestorsIterState::End => return None,
            AncestorsIterState::Start => memrchr(b'/', inner_bytes),
            AncestorsIterState::Middle(idx) => memrchr(b'/', slice_subrange(inner_bytes, 0, idx)),
        };
        let next_idx = match found_idx {
            None => {
                self.state = AncestorsIterState::End;
                return Some((
                    &[46u8],
                    if inner_bytes.len() == 0 {
                        None
                    } else {
                        Some(self.inner)
                    },
                ));
            }
            Some(idx) => idx,
        };

        // Split the path.
        let (ancestor_bytes, remaining_bytes): (&[u8], Option<&[u8]>) = {
            let __m = split_at(inner_bytes, next_idx);
            if bytes_eq(__m.0, &[]) && bytes_eq(__m.1, &[47u8]) { (&[47u8], None) }
            else if bytes_eq(__m.1, &[47u8]) { let dir = __m.0; (dir, None) }
            else if bytes_eq(__m.0, &[]) { let base = __m.1; (&[47u8], Some(slice_subrange(base, 1, base.len()))) }
            else { let dir = __m.0; let base = __m.1; (dir, Some(slice_subrange(base, 1, base.len()))) }
        };

        // Update the state.
        self.state = if bytes_eq(ancestor_bytes, &[]) || bytes_eq(ancestor_bytes, &[46u8]) || bytes_eq(ancestor_bytes, &[47u8]) {
            AncestorsIterState::End
        } else {
            AncestorsIterState::Middle(next_idx)
        };

        Some((
            ancestor_bytes,
            remaining_bytes,
        ))
    }
}

fn partial_ancestors<'p>(path: &'p [u8]) -> (r: Ancestors<'p>)
    ensures r.state is Start, r.inner@ == path@, r.wf()
{
    Ancestors { state: AncestorsIterState::Start, inner: path }
}

pub(crate) fn path_split<'a>(path: &'a [u8]) -> (r: Result<(&'a [u8], Option<&'a [u8]>), Error>)
    ensures
        r matches Ok((dir, base)) ==> (
            split_ok(path@, dir@, match base { Some(b) => Some(b@), None => None })
            && (base matches Some(b) ==> b@.len() > 0)
        ),
{
    let mut it = partial_ancestors(path);
    let (dir, base) = it
        .next()
        .expect("partial_ancestors iterator must return at least one entry");

    if let Some(base) = base {
        let base_bytes = base;
        if bytes_eq(base_bytes, &[]) {
            return Err(error_from(ErrorImpl::SafetyViolation {
                description: 0,
            }));
        }
        // contains(&b'/')
    }

    Ok((dir, base))
}

} // verus!
fn main() {}
