use vstd::prelude::*;
use vstd::slice::*;
verus! {

pub open spec fn no_slash(p: Seq<u8>) -> bool { forall|i: int| 0 <= i < p.len() ==> p[i] != 47u8 }

// index of the first occurrence of c, or p.len()
pub open spec fn first_idx(p: Seq<u8>, c: u8) -> int
    decreases p.len()
{
    if p.len() == 0 { 0 } else if p[0] == c { 0 } else { 1 + first_idx(p.skip(1), c) }
}

pub open spec fn split(p: Seq<u8>) -> Seq<Seq<u8>>
    decreases p.len()
{
    let i = first_idx(p, 47u8);
    if 0 <= i < p.len() {
        seq![p.subrange(0, i)] + split(p.subrange(i + 1, p.len() as int))
    } else {
        seq![p]
    }
}

proof fn lemma_first_idx(p: Seq<u8>, c: u8)
    ensures
        0 <= first_idx(p, c) <= p.len(),
        first_idx(p, c) < p.len() ==> p[first_idx(p, c)] == c,
        forall|j: int| 0 <= j < first_idx(p, c) ==> p[j] != c,
    decreases p.len()
{
    if p.len() == 0 {
    } else if p[0] == c {
    } else {
        lemma_first_idx(p.skip(1), c);
        assert forall|j: int| 0 <= j < first_idx(p, c) implies p[j] != c by {
            if j > 0 { assert(p.skip(1)[j - 1] == p[j]); }
        }
    }
}

proof fn lemma_first_idx_unique(p: Seq<u8>, c: u8, i: int)
    requires 0 <= i <= p.len(), (i < p.len() ==> p[i] == c), forall|j: int| 0 <= j < i ==> p[j] != c
    ensures first_idx(p, c) == i
{
    lemma_first_idx(p, c);
    let k = first_idx(p, c);
    if k < i { assert(p[k] == c); assert(p[k] != c); }
    if k > i { assert(p[i] != c); }
}

#[verifier::external_body]
fn memchr(n: u8, h: &[u8]) -> (r: Option<usize>)
    ensures
        match r {
            Some(i) => i < h@.len() && h@[i as int] == n && forall|j: int| 0 <= j < i ==> h@[j] != n,
            None => forall|j: int| 0 <= j < h@.len() ==> h@[j] != n,
        }
{ unimplemented!() }

fn contains_byte(s: &[u8], c: u8) -> (r: bool)
    ensures r == !(forall|i: int| 0 <= i < s@.len() ==> s@[i] != c)
{
    let mut i: usize = 0;
    while i < s.len()
        invariant i <= s.len(), forall|j: int| 0 <= j < i ==> s@[j] != c,
        decreases s.len() - i
    {
        if s[i] == c { return true; }
        i += 1;
    }
    false
}

fn runtime_assert(c: bool) requires c {}

fn split_at<'a>(s: &'a [u8], mid: usize) -> (r: (&'a [u8], &'a [u8]))
    requires mid <= s@.len()
    ensures r.0@ == s@.subrange(0, mid as int), r.1@ == s@.subrange(mid as int, s@.len() as int)
{
    (slice_subrange(s, 0, mid), slice_subrange(s, mid, s.len()))
}

// ---------------- extracted: RawComponents (R1, R9 applied by hand) ----------------
pub(crate) struct RawComponents<'a> {
    inner: Option<&'a [u8]>,
}

pub open spec fn rest_view(o: Option<&[u8]>) -> Seq<Seq<u8>> {
    match o { None => Seq::<Seq<u8>>::empty(), Some(p) => split(p@) }
}

impl<'a> RawComponents<'a> {
    fn next(&mut self) -> (r: Option<&'a [u8]>)
        ensures
            rest_view(old(self).inner).len() == 0 <==> r is None,
            r matches Some(c) ==> (
                c@ == rest_view(old(self).inner)[0]
                && rest_view(final(self).inner) =~= rest_view(old(self).inner).skip(1)
                && no_slash(c@)
            ),
            r is None ==> final(self).inner is None,
    {
        match self.inner {
            None => None,
            Some(inner) => {
                let (next, remaining) = match memchr(b'/', inner) {
                    None => (inner, None),
                    Some(idx) => {
                        let (head, mut tail) = split_at(inner, idx);
                        tail = slice_subrange(tail, 1, tail.len()); // strip slash
                        (head, Some(tail))
                    }
                };
                proof {
                    let p = inner@;
                    match remaining {
                        None => { lemma_first_idx_unique(p, 47u8, p.len() as int); }
                        Some(t) => {
                            let i = first_idx(p, 47u8);
                            lemma_first_idx(p, 47u8);
                            // memchr result equals first_idx
                            assert(next@.len() <= p.len());
                            lemma_first_idx_unique(p, 47u8, next@.len() as int);
                            assert(t@ =~= p.subrange(i + 1, p.len() as int));
                            assert(next@ =~= p.subrange(0, i));
                        }
                    }
                }
                self.inner = remaining;
                runtime_assert(
                    !contains_byte(next, b'/'),
                );
                Some(next)
            }
        }
    }
}

} // verus!
fn main() {}
