#![feature(allocator_api)]
use vstd::prelude::*;
use std::collections::VecDeque;
use std::rc::Rc;
verus! {

// ======================= prelude (hand-written, trusted) =====================
#[derive(Clone, Copy, PartialEq, Eq)]
pub struct OpenFlags { pub bits: i32 }
impl OpenFlags {
    pub const O_PATH: OpenFlags = OpenFlags { bits: 0o10000000 };
    pub const O_NOFOLLOW: OpenFlags = OpenFlags { bits: 0o400000 };
}
impl vstd::std_specs::ops::BitOrSpecImpl for OpenFlags {
    open spec fn obeys_bitor_spec() -> bool { true }
    open spec fn bitor_req(self, o: OpenFlags) -> bool { true }
    open spec fn bitor_spec(self, o: OpenFlags) -> OpenFlags { OpenFlags { bits: self.bits | o.bits } }
}
impl core::ops::BitOr for OpenFlags {
    type Output = OpenFlags;
    fn bitor(self, o: OpenFlags) -> (r: OpenFlags) { OpenFlags { bits: self.bits | o.bits } }
}
#[derive(Clone, Copy)]
pub struct ResolverFlags { pub bits: u64 }
impl ResolverFlags {
    pub const NO_SYMLINKS: ResolverFlags = ResolverFlags { bits: 0x04 };
    pub fn contains(&self, o: ResolverFlags) -> (r: bool) ensures r == (self.bits & o.bits == o.bits) { self.bits & o.bits == o.bits }
}

#[verifier::external_body]
pub struct OwnedFd { _p: () }
impl OwnedFd {
    pub uninterp spec fn inside(&self) -> bool;
    pub uninterp spec fn witnessed(&self) -> bool;
}
#[verifier::external_body]
pub struct Error { _p: () }
#[verifier::external_body]
pub struct SysError { _p: () }
#[verifier::external_body]
pub struct Metadata { _p: () }
impl Metadata {
    pub uninterp spec fn symlink(&self) -> bool;
    #[verifier::external_body]
    pub fn is_symlink(&self) -> (r: bool) ensures r == self.symlink() { unimplemented!() }
}
pub struct OsString { pub b: Vec<u8> }
pub struct PathBuf { pub b: Vec<u8> }

pub open spec fn no_slash(p: Seq<u8>) -> bool { forall|i: int| 0 <= i < p.len() ==> p[i] != 47u8 }
pub open spec fn is_dotdot(p: Seq<u8>) -> bool { p.len() == 2 && p[0] == 46u8 && p[1] == 46u8 }

impl OsString {
    #[verifier::external_body]
    pub fn eq_lit(&self, lit: &[u8]) -> (r: bool) ensures r == (self.b@ =~= lit@) { unimplemented!() }
    #[verifier::external_body]
    pub fn contains_byte(&self, c: u8) -> (r: bool) ensures r == (exists|i: int| 0 <= i < self.b@.len() && self.b@[i] == c) { unimplemented!() }
    #[verifier::external_body]
    pub fn from_lit(lit: &[u8]) -> (r: OsString) ensures r.b@ == lit@ { unimplemented!() }
}
impl PathBuf {
    #[verifier::external_body]
    pub fn from_lit(lit: &[u8]) -> (r: PathBuf) ensures r.b@ == lit@ { unimplemented!() }
    #[verifier::external_body]
    pub fn pop(&mut self) -> bool { unimplemented!() }
    #[verifier::external_body]
    pub fn push(&mut self, p: &OsString) { unimplemented!() }
    #[verifier::external_body]
    pub fn is_absolute(&self) -> bool { unimplemented!() }
}

pub enum ErrKind { Safety, Os(i32), Raw(SysError), BadStack }
#[verifier::external_body]
pub fn mkerr(k: ErrKind) -> Error { unimplemented!() }

pub enum PartialLookup {
    Complete(Rc<OwnedFd>),
    Partial { handle: Rc<OwnedFd>, remaining: PathBuf, last_error: Error },
}

#[verifier::external_body]
pub fn dup_root(root: &OwnedFd) -> (r: Result<OwnedFd, Error>)
    ensures r matches Ok(fd) ==> fd.inside()
{ unimplemented!() }

#[verifier::external_body]
pub fn syscalls_openat(dirfd: &OwnedFd, path: &OsString, flags: OpenFlags, mode: u32) -> (r: Result<OwnedFd, SysError>)
    requires
        dirfd.inside(),
        path.b@.len() > 0, no_slash(path.b@),
        flags.bits == 0o10000000i32 | 0o400000i32,
    ensures
        r matches Ok(fd) ==> (!is_dotdot(path.b@) ==> fd.inside()),
{ unimplemented!() }

#[verifier::external_body]
pub fn syscalls_readlinkat_empty(fd: &OwnedFd) -> (r: Result<PathBuf, SysError>) { unimplemented!() }

#[verifier::external_body]
pub fn check_current(current: &OwnedFd, root: &OwnedFd, expected: &PathBuf) -> (r: Result<(), Error>)
    ensures r is Ok ==> current.inside() && current.witnessed()
{ unimplemented!() }

#[verifier::external_body]
pub fn fd_metadata(fd: &OwnedFd) -> (r: Result<Metadata, Error>) { unimplemented!() }
#[verifier::external_body]
pub fn may_follow_link(dir: &OwnedFd, link: &OwnedFd) -> (r: Result<(), Error>) { unimplemented!() }
#[verifier::external_body]
pub fn is_magiclink_filesystem(fd: &OwnedFd) -> (r: Result<bool, Error>) { unimplemented!() }

#[verifier::external_body]
pub fn collect_components(path: &[u8]) -> (r: VecDeque<OsString>)
    ensures forall|i: int| 0 <= i < r@.len() ==> no_slash(#[trigger] r@[i].b@)
{ unimplemented!() }
#[verifier::external_body]
pub fn prepend_components(target: &PathBuf, deque: &mut VecDeque<OsString>)
    ensures
        forall|i: int| 0 <= i < final(deque)@.len() ==> no_slash(#[trigger] final(deque)@[i].b@) || exists|j: int| 0 <= j < old(deque)@.len() && old(deque)@[j] == final(deque)@[i],
{ unimplemented!() }
#[verifier::external_body]
pub fn join_remaining(part: &OsString, rest: &VecDeque<OsString>) -> PathBuf { unimplemented!() }

pub const MAX_SYMLINK_TRAVERSALS: usize = 128;
pub assume_specification<T, A: std::alloc::Allocator> [std::collections::VecDeque::<T, A>::is_empty] (q: &std::collections::VecDeque<T, A>) -> (r: bool)
    ensures r == (q@.len() == 0);


// ======================= extracted function (rewritten) ======================
fn do_resolve(
    root: &OwnedFd,
    path: &[u8],
    flags: ResolverFlags,
    no_follow_trailing: bool,
) -> (res: Result<PartialLookup, Error>)
    requires root.inside()
    ensures
        match res {
            Ok(PartialLookup::Complete(h)) => h.inside() && h.witnessed(),
            Ok(PartialLookup::Partial { handle, .. }) => handle.inside(),
            Err(_) => true,
        }
{
    let mut expected_path = PathBuf::from_lit(&[47u8]);

    let root = Rc::new(dup_root(root)?);
    let mut current = Rc::clone(&root);

    let mut remaining_components = collect_components(path);

    let mut symlink_traversals: usize = 0;
    while let Some(part) = remaining_components.pop_front()
        invariant
            root.inside(), current.inside(),
            forall|i: int| 0 <= i < remaining_components@.len() ==> no_slash(#[trigger] remaining_components@[i].b@),
            symlink_traversals < MAX_SYMLINK_TRAVERSALS,
        ensures current.inside(), root.inside(),
        decreases MAX_SYMLINK_TRAVERSALS - symlink_traversals, remaining_components@.len()
    {
        let remaining: PathBuf = join_remaining(&part, &remaining_components);

        let part = if part.eq_lit(&[]) {
            OsString::from_lit(&[46u8])
        } else if part.eq_lit(&[46u8]) {
            part
        } else if part.eq_lit(&[46u8, 46u8]) {
            if !expected_path.pop() {
                current = Rc::clone(&root);
                continue;
            }
            part
        } else {
            expected_path.push(&part);
            if part.contains_byte(b'/') {
                return Err(mkerr(ErrKind::Safety));
            }
            part
        };

        match syscalls_openat(
            &*current,
            &part,
            OpenFlags::O_PATH | OpenFlags::O_NOFOLLOW,
            0,
        )
        .map_err(|err| mkerr(ErrKind::Raw(err))) {
            Err(err) => {
                return Ok(PartialLookup::Partial {
                    handle: current,
                    remaining,
                    last_error: err,
                });
            }
            Ok(next) => {
                if part.eq_lit(&[46u8, 46u8]) {
                    check_current(&next, &*root, &expected_path)?;
                }

                if !fd_metadata(&next)?.is_symlink()
                {
                    current = Rc::new(next);
                    continue;
                } else {
                    if remaining_components.is_empty() && no_follow_trailing {
                        current = Rc::new(next);
                        break;
                    }

                    if flags.contains(ResolverFlags::NO_SYMLINKS) {
                        return Ok(PartialLookup::Partial {
                            handle: current,
                            remaining,
                            last_error: mkerr(ErrKind::Os(40)),
                        });
                    }

                    may_follow_link(&*current, &next)?;

                    symlink_traversals += 1;
                    if symlink_traversals >= MAX_SYMLINK_TRAVERSALS {
                        return Ok(PartialLookup::Partial {
                            handle: current,
                            remaining,
                            last_error: mkerr(ErrKind::Os(40)),
                        });
                    }

                    let link_target =
                        syscalls_readlinkat_empty(&next).map_err(|err| mkerr(ErrKind::Raw(err)))?;

                    if link_target.is_absolute()
                        && is_magiclink_filesystem(&next)?
                    {
                        return Err(mkerr(ErrKind::Os(40)));
                    }

                    expected_path.pop();

                    prepend_components(&link_target, &mut remaining_components);

                    if link_target.is_absolute() {
                        current = Rc::clone(&root);
                        expected_path = PathBuf::from_lit(&[47u8]);
                    }
                }
            }
        }
    }

    check_current(&*current, &*root, &expected_path)?;

    Ok(PartialLookup::Complete(current))
}

} // verus!
fn main() {}
