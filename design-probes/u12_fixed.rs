use vstd::prelude::*;
verus! {

pub open spec fn no_slash(p: Seq<u8>) -> bool { forall|i: int| 0 <= i < p.len() ==> p[i] != 47u8 }
pub open spec fn is_dot(p: Seq<u8>) -> bool { p =~= seq![46u8] }
pub open spec fn is_dotdot(p: Seq<u8>) -> bool { p =~= seq![46u8, 46u8] }
pub open spec fn single_component(p: Seq<u8>) -> bool { p.len() > 0 && no_slash(p) }

#[verifier::external_body]
pub struct Fd { _p: () }
impl Fd { pub uninterp spec fn lineage(&self) -> bool; }
#[verifier::external_body]
pub struct Error { _p: () }
impl Error { pub uninterp spec fn errno(&self) -> Option<i32>; }
#[verifier::external_body]
pub struct SysError { _p: () }
impl SysError { pub uninterp spec fn errno(&self) -> i32; }

pub struct AtFlags { pub bits: u32 }
impl AtFlags {
    pub fn empty() -> (r: AtFlags) ensures r.bits == 0 { AtFlags { bits: 0 } }
    pub const REMOVEDIR: AtFlags = AtFlags { bits: 0x200 };
}
#[derive(Clone, Copy)]
pub struct OpenFlags { pub bits: i32 }
impl OpenFlags { pub const O_DIRECTORY: OpenFlags = OpenFlags { bits: 0o200000 }; }

#[verifier::external_body]
fn contains_byte(s: &[u8], c: u8) -> (r: bool) ensures r == !(forall|i: int| 0 <= i < s@.len() ==> s@[i] != c) { unimplemented!() }

#[verifier::external_body]
fn syscalls_unlinkat(dirfd: &Fd, path: &[u8], flags: AtFlags) -> (r: Result<(), SysError>)
    requires dirfd.lineage(), single_component(path@), !is_dot(path@), !is_dotdot(path@)
{ unimplemented!() }

#[verifier::external_body]
fn syscalls_openat(dirfd: &Fd, path: &[u8], flags: OpenFlags, mode: u32) -> (r: Result<Fd, SysError>)
    requires dirfd.lineage(), single_component(path@)
    ensures r matches Ok(fd) ==> (!is_dotdot(path@) ==> fd.lineage())
{ unimplemented!() }

#[verifier::external_body]
fn raw_os_error(e: SysError) -> (r: Error) ensures r.errno() == Some(e.errno()) { unimplemented!() }
#[verifier::external_body]
fn safety_violation() -> (r: Error) { unimplemented!() }
#[verifier::external_body]
fn err_errno(e: &Error) -> (r: Option<i32>) ensures r == e.errno() { unimplemented!() }
#[verifier::external_body]
fn sys_errno(e: &SysError) -> (r: i32) ensures r == e.errno() { unimplemented!() }

// Dir iteration model (A8): children names are single components
#[verifier::external_body]
pub struct DirIter { _p: () }
pub struct Dentry { pub name: Vec<u8> }
#[verifier::external_body]
fn dir_read_from(fd: &Fd) -> (r: Result<DirIter, Error>) { unimplemented!() }
impl DirIter {
    // filtered + peekable collapsed into two helpers
    #[verifier::external_body]
    fn peek_is_none(&mut self) -> bool { unimplemented!() }
    #[verifier::external_body]
    fn next_filtered(&mut self) -> (r: Option<Result<Dentry, Error>>)
        ensures r matches Some(Ok(d)) ==> single_component(d.name@) && !is_dot(d.name@) && !is_dotdot(d.name@)
    { unimplemented!() }
}

fn is_dot_exec(s: &[u8]) -> (r: bool) ensures r == is_dot(s@) { s.len() == 1 && s[0] == 46 }
fn is_dotdot_exec(s: &[u8]) -> (r: bool) ensures r == is_dotdot(s@) { s.len() == 2 && s[0] == 46 && s[1] == 46 }
fn ignore_enoent(r: Result<(), Error>) -> (o: Result<(), Error>)
    ensures o is Err ==> r is Err
{
    match r {
        Ok(()) => Ok(()),
        Err(err) => if err_errno(&err) == Some(2) { Ok(()) } else { Err(err) },
    }
}

fn remove_inode(dirfd: &Fd, name: &[u8]) -> (r: Result<(), Error>)
    requires dirfd.lineage(), single_component(name@), !is_dot(name@), !is_dotdot(name@)
{
    match syscalls_unlinkat(dirfd, name, AtFlags::empty()) {
        Ok(()) => Ok(()),
        Err(unlink_err) => {
            match syscalls_unlinkat(dirfd, name, AtFlags::REMOVEDIR) {
                Ok(()) => Ok(()),
                Err(rmdir_err) => {
                    if sys_errno(&rmdir_err) == 20 { Err(raw_os_error(unlink_err)) } else { Err(raw_os_error(rmdir_err)) }
                }
            }
        }
    }
}

#[verifier::exec_allows_no_decreases_clause]
pub(crate) fn remove_all(dirfd: &Fd, name: &[u8]) -> (r: Result<(), Error>)
    requires dirfd.lineage(), name@.len() > 0
{
    if contains_byte(name, b'/') {
        return Err(safety_violation());
    }

    if is_dot_exec(name) || is_dotdot_exec(name) {
        return Err(safety_violation());
    }
    // Fast path -- try to remove it with unlink/rmdir.
    if ignore_enoent(remove_inode(dirfd, name)).is_ok() {
        return Ok(());
    }

    let subdir = match syscalls_openat(dirfd, name, OpenFlags::O_DIRECTORY, 0).map_err(|err| raw_os_error(err)) {
        Ok(fd) => fd,
        Err(err) => match err_errno(&err) {
            Some(2) => return Ok(()),
            _ => return Err(err),
        },
    };
    loop
        invariant subdir.lineage(), dirfd.lineage(), single_component(name@), !is_dot(name@), !is_dotdot(name@)
    {
        let mut iter = match dir_read_from(&subdir)
        {
            Ok(iter) => iter,
            Err(err) => match err_errno(&err) {
                Some(2) => break,
                _ => return Err(err),
            },
        };

        if iter.peek_is_none() {
            break;
        }

        loop
            invariant subdir.lineage(), dirfd.lineage(), single_component(name@), !is_dot(name@), !is_dotdot(name@)
        {
            let child = match iter.next_filtered() { None => break, Some(c) => c };
            let child = child?;
            let name = child.name.as_slice();
            ignore_enoent(remove_all(&subdir, name))?
        }
    }

    ignore_enoent(remove_inode(dirfd, name))
}

} // verus!
fn main() {}
