
use vstd::prelude::*;
verus! {

pub open spec fn no_slash(p: Seq<u8>) -> bool { forall|i: int| 0 <= i < p.len() ==> p[i] != 47u8 }
pub open spec fn single_component(p: Seq<u8>) -> bool { p.len() > 0 && no_slash(p) }
pub uninterp spec fn lineage(id: int) -> bool;

#[verifier::external_body]
pub struct OwnedFd { _p: () }
impl OwnedFd { pub uninterp spec fn id(&self) -> int; }
#[derive(Clone, Copy)]
pub struct BorrowedFd<'a> { pub id: Ghost<int>, pub _p: core::marker::PhantomData<&'a ()> }
pub trait AsFd {
    spec fn fd_id(&self) -> int;
    fn as_fd(&self) -> (r: BorrowedFd<'_>) ensures r.id@ == self.fd_id();
}
impl AsFd for OwnedFd {
    open spec fn fd_id(&self) -> int { self.id() }
    #[verifier::external_body]
    fn as_fd(&self) -> (r: BorrowedFd<'_>) { unimplemented!() }
}
impl<T: AsFd> AsFd for &T {
    open spec fn fd_id(&self) -> int { (**self).fd_id() }
    fn as_fd(&self) -> (r: BorrowedFd<'_>) { (**self).as_fd() }
}

pub struct Path { pub b: Vec<u8> }       // stand-in: &Path is a reference to this
pub trait AsRefPath { spec fn pview(&self) -> Seq<u8>; fn as_ref(&self) -> (r: &Path) ensures r.b@ == self.pview(); }
impl AsRefPath for &Path { open spec fn pview(&self) -> Seq<u8> { self.b@ } fn as_ref(&self) -> (r: &Path) { *self } }

#[verifier::external_body]
pub struct Cow { _p: () }
impl From<&'static str> for Cow { #[verifier::external_body] fn from(s: &'static str) -> Cow { unimplemented!() } }

pub mod syscalls {
    use super::*;
    #[verifier::external_body]
    pub struct Error { _p: () }
    #[verifier::external_body]
    pub fn unlinkat<Fd: AsFd, P: AsRefPath>(dirfd: Fd, path: P, flags: AtFlags) -> (r: Result<(), Error>)
        requires lineage(dirfd.fd_id()), single_component(path.pview())
    { unimplemented!() }
}
use syscalls::Error as SyscallError;

#[derive(Clone, Copy)]
pub struct AtFlags { pub bits: u32 }
impl AtFlags {
    pub fn empty() -> (r: AtFlags) ensures r.bits == 0 { AtFlags { bits: 0 } }
    pub const REMOVEDIR: AtFlags = AtFlags { bits: 0x200 };
}

pub enum ErrorImpl {
    InvalidArgument { name: Cow, description: Cow },
    RawOsError { operation: Cow, source: SyscallError },
}
#[verifier::external_body]
pub struct Error { _p: () }
impl Error { pub uninterp spec fn is_invalid_arg(&self) -> bool; }
impl From<ErrorImpl> for Error { #[verifier::external_body] fn from(e: ErrorImpl) -> Error { unimplemented!() } }

pub trait ErrorExt: Sized { fn wrap(self, context: &'static str) -> Self; }
impl<T> ErrorExt for Result<T, Error> { #[verifier::external_body] fn wrap(self, context: &'static str) -> (r: Self) ensures (self is Ok ==> r == self), (self is Err <==> r is Err) { unimplemented!() } }

#[derive(Clone, Copy)]
enum RemoveInodeType { Regular, Directory }

pub struct Handle { pub inner: OwnedFd }
impl vstd::std_specs::convert::FromSpecImpl<Handle> for OwnedFd {
    open spec fn obeys_from_spec() -> bool { true }
    open spec fn from_spec(h: Handle) -> OwnedFd { h.inner }
}
impl From<Handle> for OwnedFd { fn from(h: Handle) -> (r: OwnedFd) { h.inner } }

pub mod utils {
    use super::*;
    #[verifier::external_body]
    pub fn path_split(path: &'_ Path) -> (r: Result<(&'_ Path, Option<&'_ Path>), Error>)
        ensures r matches Ok((_, Some(b))) ==> single_component(b.b@)
    { unimplemented!() }
}

pub struct RootRef<'fd> { pub inner: BorrowedFd<'fd> }
impl RootRef<'_> {
    #[verifier::external_body]
    pub fn resolve(&self, path: &Path) -> (r: Result<Handle, Error>)
        ensures r matches Ok(h) ==> lineage(h.inner.id())
    { unimplemented!() }

    // ======== verbatim repository text below ========

    fn resolve_parent<'p>(&self, path: &'p Path) -> (r: Result<(OwnedFd, Option<&'p Path>), Error>)
        ensures r matches Ok((dir, name)) ==> lineage(dir.id()) && (name matches Some(n) ==> single_component(n.b@))   // [C03.resolve_parent.lineage_and_single_name]
    {
        let (parent, name) = utils::path_split(path).wrap("split path into (parent, name)")?;
        let dir = self
            .resolve(parent)
            .wrap("resolve parent directory")?
            .into();
        Ok((dir, name))
    }

    fn remove_inode(&self, path: &Path, inode_type: RemoveInodeType) -> Result<(), Error> {
        // unlinkat(2) doesn't let us remove an inode using just a handle (for
        // obvious reasons -- on Unix hardlinks mean that "unlink this file"
        // doesn't make sense without referring to a specific directory entry).
        let (dir, name) = self
            .resolve_parent(path.as_ref())
            .wrap("resolve file removal path")?;
        // TODO: rmdir() lets you use trailing slashes. We should probably allow
        //       that too...
        let name = name.ok_or_else(|| ErrorImpl::InvalidArgument {
            name: "path".into(),
            description: "file removal path has trailing slash".into(),
        })?;

        let flags = match inode_type {
            RemoveInodeType::Regular => AtFlags::empty(),
            RemoveInodeType::Directory => AtFlags::REMOVEDIR,
        };
        syscalls::unlinkat(dir, name, flags).map_err(|err| {
            ErrorImpl::RawOsError {
                operation: "pathrs remove".into(),
                source: err,
            }
            .into()
        })
    }
}

} // verus!
fn main() {}
