use vstd::prelude::*;
use std::collections::HashMap;
verus! {
broadcast use vstd::std_specs::hash::group_hash_axioms;

#[verifier::external_body]
pub struct Error { _p: () }
impl Error { pub uninterp spec fn errno(&self) -> Option<i32>; }
#[verifier::external_body]
fn err_errno(e: &Error) -> (r: Option<i32>) ensures r == e.errno() { unimplemented!() }

pub type CReturn = i32;

#[verifier::external_body]
pub struct ThreadRng { _p: () }
#[verifier::external_body]
fn thread_rng() -> ThreadRng { unimplemented!() }
impl ThreadRng {
    #[verifier::external_body]
    fn gen_range_inclusive(&mut self, lo: i32, hi: i32) -> (r: i32)
        requires lo <= hi
        ensures lo <= r <= hi
    { unimplemented!() }
}

// R16: `let mut err_map = ERROR_MAP.lock().unwrap();` becomes the &mut parameter (whole body is one critical section)
#[verifier::exec_allows_no_decreases_clause]
pub(crate) fn store_error(err_map: &mut HashMap<CReturn, Error>, err: Error) -> (idx: CReturn)
    ensures
        idx <= -4096,                                            // [C16.store_error.below_errno_range]
        !old(err_map)@.contains_key(idx),                        // [C16.store_error.fresh]
        final(err_map)@ == old(err_map)@.insert(idx, err),       // [C16.store_error.exact_attribution]
{
    let mut g = thread_rng();
    loop
        invariant *err_map == *old(err_map)
    {
        let idx = g.gen_range_inclusive(CReturn::MIN, -4096);
        if err_map.contains_key(&idx) {
            continue;
        } else {
            err_map.insert(idx, err);
            return idx;
        }
    }
}

pub struct CError { pub saved_errno: u64 }

#[verifier::external_body]
fn unsigned_abs(x: i32) -> (r: u32) ensures r as int == if x >= 0 { x as int } else { -(x as int) } { unimplemented!() }

fn cerror_from(err: &Error) -> (r: CError)
    ensures r.saved_errno as int == match err.errno() { None => 0int, Some(e) => if e >= 0 { e as int } else { -(e as int) } }   // [C16.cerror.errno]
{
    let saved_errno = unsigned_abs(match err_errno(err) { Some(e) => e, None => 0 });
    CError { saved_errno: saved_errno as u64 }
}

pub fn pathrs_errorinfo(err_map: &mut HashMap<CReturn, Error>, err_id: i32) -> (r: Option<CError>)
    ensures
        final(err_map)@ == old(err_map)@.remove(err_id),                       // [C16.errorinfo.consumed]
        r is Some <==> old(err_map)@.contains_key(err_id),                // [C16.errorinfo.once]
        r matches Some(c) ==> c.saved_errno as int == match old(err_map)@[err_id].errno() { None => 0int, Some(e) => if e >= 0 { e as int } else { -(e as int) } },
{
    match err_map.remove(&err_id) {
        None => None,
        Some(e) => Some(cerror_from(&e)),
    }
}

} // verus!
fn main() {}
