use vstd::prelude::*;
verus! {

pub const AT_FDCWD: i32 = -100;
pub const O_NOFOLLOW: i32 = 0o400000;
pub const O_CLOEXEC: i32 = 0o2000000;
pub const O_NOCTTY: i32 = 0o400;
pub const EBADF: i32 = 9;
pub const AT_SYMLINK_NOFOLLOW: u32 = 0x100;
pub const AT_NO_AUTOMOUNT: u32 = 0x800;
pub const AT_EMPTY_PATH: u32 = 0x1000;

pub mod lem {
    use vstd::prelude::*;
    pub broadcast proof fn lemma_or_contains_r(a: i32, b: i32) ensures #[trigger] ((a | b) & b) == b
    { assert(((a | b) & b) == b) by (bit_vector); }
    pub broadcast proof fn lemma_or_contains_l(a: i32, b: i32) ensures #[trigger] ((a | b) & a) == a
    { assert(((a | b) & a) == a) by (bit_vector); }
    pub broadcast proof fn lemma_or_mono_l(a: i32, b: i32, f: i32)
        requires a & f == f ensures #[trigger] ((a | b) & f) == f
    { assert(a & f == f ==> ((a | b) & f) == f) by (bit_vector); }
    pub broadcast proof fn lemma_or_mono_r(a: i32, b: i32, f: i32)
        requires b & f == f ensures #[trigger] ((a | b) & f) == f
    { assert(b & f == f ==> ((a | b) & f) == f) by (bit_vector); }
}
broadcast use {lem::lemma_or_contains_r, lem::lemma_or_contains_l, lem::lemma_or_mono_l, lem::lemma_or_mono_r};

pub open spec fn has(bits: i32, f: i32) -> bool { bits & f == f }
pub assume_specification<T>[<T as core::convert::From<T>>::from](t: T) -> (r: T) ensures r == t;

#[derive(Clone, Copy, PartialEq, Eq)]
pub struct OpenFlags { pub bits: i32 }
impl OpenFlags {
    pub const O_NOFOLLOW: OpenFlags = OpenFlags { bits: O_NOFOLLOW };
    pub const O_CLOEXEC: OpenFlags = OpenFlags { bits: O_CLOEXEC };
    pub const O_NOCTTY: OpenFlags = OpenFlags { bits: O_NOCTTY };
    pub fn insert(&mut self, o: OpenFlags) ensures final(self).bits == old(self).bits | o.bits { self.bits = self.bits | o.bits; }
}
impl vstd::std_specs::ops::BitOrSpecImpl for OpenFlags {
    open spec fn obeys_bitor_spec() -> bool { true }
    open spec fn bitor_req(self, o: OpenFlags) -> bool { true }
    open spec fn bitor_spec(self, o: OpenFlags) -> OpenFlags { OpenFlags { bits: self.bits | o.bits } }
}
impl core::ops::BitOr for OpenFlags {
    type Output = OpenFlags;
    fn bitor(self, o: OpenFlags) -> (r: OpenFlags) { OpenFlags { bits: self.bits | o.bits } }
}

// BorrowedFd<'_> model
#[derive(Clone, Copy)]
pub struct BorrowedFd { pub raw: i32 }
#[verifier::external_body]
pub struct OwnedFd { _p: () }
impl OwnedFd { pub uninterp spec fn kflags(&self) -> i32; pub uninterp spec fn kdirfd(&self) -> i32; }
#[verifier::external_body]
pub struct Errno { _p: () }
pub enum Error {
    InvalidFd { fd: i32 },
    Openat { dirfd: i32, flags: OpenFlags, mode: u32, source: Errno },
}
impl Error {
    // flags the kernel was asked with, for failing calls too (C05 speaks about error paths alike)
    pub open spec fn attempted_flags(self) -> Option<i32> {
        match self { Error::Openat { flags, .. } => Some(flags.bits), _ => None }
    }
}

// A7: rustix passes its arguments through unchanged
#[verifier::external_body]
fn rustix_fs_openat(dirfd: BorrowedFd, path: &[u8], oflags: i32, mode: u32) -> (r: Result<OwnedFd, Errno>)
    requires
        dirfd.raw == AT_FDCWD || dirfd.raw >= 0,                              // [C05.rustix_openat.valid_dirfd]
        has(oflags, O_CLOEXEC), has(oflags, O_NOCTTY),                        // [C05.rustix_openat.cloexec_noctty]
    ensures r matches Ok(fd) ==> fd.kflags() == oflags && fd.kdirfd() == dirfd.raw
{ unimplemented!() }

// extracted: HotfixRustixFd::hotfix_rustix_fd (R2, R4-for-ranges)
fn hotfix_rustix_fd(this: BorrowedFd) -> (r: Result<BorrowedFd, Error>)
    ensures
        (this.raw == AT_FDCWD || this.raw >= 0) <==> r is Ok,                 // [C05.hotfix.exactly_valid_fds]
        r matches Ok(fd) ==> fd.raw == this.raw,
        r matches Err(e) ==> e is InvalidFd,
{
    let fd = this.raw;
    if fd == AT_FDCWD || fd >= 0 { Ok(this) } else { Err(Error::InvalidFd { fd }) }
}

// extracted: openat_follow
pub(crate) fn openat_follow(dirfd: BorrowedFd, path: &[u8], flags: OpenFlags, mode: u32) -> (r: Result<OwnedFd, Error>)
    ensures
        r matches Ok(fd) ==> has(fd.kflags(), O_CLOEXEC) && has(fd.kflags(), O_NOCTTY) && fd.kflags() == (flags.bits | (O_CLOEXEC | O_NOCTTY)),   // [C05.openat_follow.cloexec_noctty]
        r matches Err(e) ==> (e.attempted_flags() matches Some(f) ==> f == (flags.bits | (O_CLOEXEC | O_NOCTTY))),
{
    let mut flags = flags;
    let dirfd = hotfix_rustix_fd(dirfd)?;

    flags.insert(OpenFlags::O_CLOEXEC | OpenFlags::O_NOCTTY);

    match rustix_fs_openat(dirfd, path, flags.bits, mode) { Ok(v) => Ok(v), Err(errno) => Err(
        Error::Openat {
            dirfd: dirfd.raw,
            flags,
            mode,
            source: errno,
        }
    ) }
}

// extracted: openat
pub(crate) fn openat(dirfd: BorrowedFd, path: &[u8], flags: OpenFlags, mode: u32) -> (r: Result<OwnedFd, Error>)
    ensures
        r matches Ok(fd) ==> has(fd.kflags(), O_NOFOLLOW) && has(fd.kflags(), O_CLOEXEC) && has(fd.kflags(), O_NOCTTY),   // [C05.openat.nofollow_cloexec_noctty]
        r matches Err(e) ==> (e.attempted_flags() matches Some(f) ==> has(f, O_NOFOLLOW)),
{
    let mut flags = flags;
    flags.insert(OpenFlags::O_NOFOLLOW);
    openat_follow(dirfd, path, flags, mode)
}

} // verus!
fn main() {}
